(* The trace reader as the chain of LAZY generators it is (eudoxia/workload/csv_io.py):
     CSVWorkloadReader.batch_by_pipeline   yields one PipelineArrival at a time,
     CSVWorkloadReader.batch_by_arrival    consumes it and yields one arrival batch at a time.
   Model/Csv.v [read_rows_c] reads a whole file at once; here every generator is an explicit state machine over
   the parsed rows ([row] of Model/Csv.v): a state is a suspension point of the Python generator together with its
   locals, [xx_next] is one call of next(): it runs the generator body up to the next yield, to its end
   (StopIteration) or to the exception that escapes from it. Definitions only; Proofs/CsvLazyFacts.v relates
   them to the eager reader.

   Below the model, as in Model/Csv.v: csv.DictReader and _parse_row (a row whose numeric cell does not parse
   raises when that ROW is read, which is a different and earlier moment than the refusals modelled here). *)
From Coq Require Import ZArith QArith List Bool Arith.
Import ListNotations.
From Eudoxia Require Import Model.Types Model.Timing Model.Csv.
Close Scope Q_scope.
Close Scope Z_scope.

(* batch[0].pipeline_id : the id create_pipeline_from_batch gives the Pipeline object *)
Definition batch_pid (b : list row) : nat := match b with r :: _ => r_pid r | [] => 0 end.

(* a PipelineArrival as it leaves batch_by_pipeline: the Pipeline object (its pipeline_id token and contents);
   arrival_seconds = current_batch[0].arrival_seconds is [pm_arr] of the contents *)
Definition arrival := (nat * pipeline_m)%type.

(* ------------------------------------------------------------------------------------------------------ *)
(* batch_by_pipeline

     current_batch = [] ; current_pipeline_id = None
     for row_dict in reader:                                   # one row is pulled from the file per iteration
         row = self._parse_row(row_dict)
         if current_pipeline_id is None:      current_pipeline_id = row.pipeline_id ; current_batch = [row]
         elif row.pipeline_id == current_pipeline_id:          current_batch.append(row)
         else:
             arrival_seconds = current_batch[0].arrival_seconds
             pipeline = self.create_pipeline_from_batch(current_batch)      # may raise: the generator is dead
             yield PipelineArrival(arrival_seconds, pipeline)               # <- suspension point A
             current_pipeline_id = row.pipeline_id ; current_batch = [row]
     if current_batch:
         ... create_pipeline_from_batch(current_batch) ; yield ...          # <- suspension point B

   [BpRun id cur rest]: in the for loop, about to pull the next row; [rest] = the rows not yet pulled from the
   file, [cur] = current_batch, [id] = current_pipeline_id. The initial state is [BpRun None [] rows]. At
   suspension point A the row just pulled has been compared but not stored yet; the two assignments that follow
   the yield are the first thing next() executes and nothing can observe the difference, so the suspended
   generator is represented by the state after them, [BpRun (Some (r_pid r)) [r] rest].
   [BpEnd]: suspension point B (next() runs off the end), a generator that has returned, or one that has raised
   (next() on it is StopIteration again). *)
Inductive bp_state :=
| BpRun (id : option nat) (cur : list row) (rest : list row)
| BpEnd.

Inductive bp_out :=
| Yield (a : arrival) (s : bp_state)     (* a PipelineArrival, and the suspended generator *)
| Done                                   (* StopIteration *)
| Raise (e : refusal).                   (* the exception of create_pipeline_from_batch escapes from next() *)

(* run the body from inside the for loop until something leaves the generator *)
Fixpoint bp_scan (id : option nat) (cur : list row) (rest : list row) : bp_out :=
  match rest with
  | [] =>                                                  (* the file is exhausted: "if current_batch:" *)
      match cur with
      | [] => Done
      | _ :: _ =>
          match create_pipeline cur with
          | inl e => Raise e
          | inr p => Yield (batch_pid cur, p) BpEnd
          end
      end
  | r :: rest' =>
      match id with
      | None => bp_scan (Some (r_pid r)) [r] rest'
      | Some i =>
          if r_pid r =? i then bp_scan id (cur ++ [r]) rest'
          else match create_pipeline cur with
               | inl e => Raise e                          (* row r has been pulled; batch [cur] is refused *)
               | inr p => Yield (batch_pid cur, p) (BpRun (Some (r_pid r)) [r] rest')
               end
      end
  end.

Definition bp_next (s : bp_state) : bp_out :=
  match s with
  | BpRun id cur rest => bp_scan id cur rest
  | BpEnd => Done
  end.

Definition bp_start (rows : list row) : bp_state := BpRun None [] rows.

(* an upper bound of the number of next() calls that still yield *)
Definition bp_size (s : bp_state) : nat :=
  match s with BpRun _ _ rest => S (length rest) | BpEnd => 0 end.

(* a consumer that keeps calling next(): everything yielded before the generator ends or raises *)
Fixpoint bp_run (fuel : nat) (s : bp_state) : list arrival * option refusal :=
  match fuel with
  | O => ([], None)
  | S f =>
      match bp_next s with
      | Yield a s' => let (l, oe) := bp_run f s' in (a :: l, oe)
      | Done => ([], None)
      | Raise e => ([], Some e)
      end
  end.
Definition bp_all (s : bp_state) : list arrival * option refusal := bp_run (S (bp_size s)) s.

(* "out = [] ; for a in reader.batch_by_pipeline(): out.append(a)": the PipelineArrivals delivered, and the
   exception that ended the loop if there was one *)
Definition lazy_arrivals (rows : list row) : list arrival * option refusal := bp_all (bp_start rows).
Definition lazy_pipelines (rows : list row) : list pipeline_m * option refusal :=
  (map snd (fst (lazy_arrivals rows)), snd (lazy_arrivals rows)).
Definition lazy_ids (rows : list row) : list nat := map fst (fst (lazy_arrivals rows)).

(* ------------------------------------------------------------------------------------------------------ *)
(* batch_by_arrival

     current_batch = [] ; current_arrival_seconds = None
     for pipeline_arrival in self.batch_by_pipeline():          # one next() of the inner generator per iteration
         if current_arrival_seconds is None:   current_arrival_seconds = pa.arrival_seconds ; current_batch = [pa]
         elif pa.arrival_seconds == current_arrival_seconds:    current_batch.append(pa)
         else:
             yield current_batch                                                  # <- suspension point A
             current_arrival_seconds = pa.arrival_seconds ; current_batch = [pa]
     if current_batch:
         yield current_batch                                                      # <- suspension point B

   The comparison is == on floats; arrivals are exact rationals here (NaN and infinities are outside the
   domain, -0.0 == 0.0 on both sides), so it is [Qeq_bool]. An exception of the inner generator propagates
   through the for statement: batch_by_arrival dies with it and its current_batch is dropped.
   [BaRun s arr cur]: in the for loop, about to call next() on the inner generator [s]; as above the state at
   suspension point A is the one after the two assignments. *)
Inductive ba_state :=
| BaRun (s : bp_state) (arr : option Q) (cur : list arrival)
| BaEnd.

Inductive ba_out :=
| BYield (b : list arrival) (s : ba_state)
| BDone
| BRaise (e : refusal).

(* [fuel] bounds the iterations of the for loop; [ba_next] passes more than the inner generator can yield *)
Fixpoint ba_scan (fuel : nat) (s : bp_state) (arr : option Q) (cur : list arrival) : ba_out :=
  match fuel with
  | O => BDone
  | S f =>
      match bp_next s with
      | Raise e => BRaise e
      | Done => match cur with [] => BDone | _ :: _ => BYield cur BaEnd end
      | Yield a s' =>
          match arr with
          | None => ba_scan f s' (Some (pm_arr (snd a))) [a]
          | Some t =>
              if Qeq_bool (pm_arr (snd a)) t then ba_scan f s' arr (cur ++ [a])
              else BYield cur (BaRun s' (Some (pm_arr (snd a))) [a])
          end
      end
  end.

Definition ba_next (s : ba_state) : ba_out :=
  match s with
  | BaRun bp arr cur => ba_scan (S (bp_size bp)) bp arr cur
  | BaEnd => BDone
  end.

Definition ba_start (rows : list row) : ba_state := BaRun (bp_start rows) None [].

Fixpoint ba_run (fuel : nat) (s : ba_state) : list (list arrival) * option refusal :=
  match fuel with
  | O => ([], None)
  | S f =>
      match ba_next s with
      | BYield b s' => let (l, oe) := ba_run f s' in (b :: l, oe)
      | BDone => ([], None)
      | BRaise e => ([], Some e)
      end
  end.

(* an upper bound of the number of next() calls that still yield *)
Definition ba_size (s : ba_state) : nat :=
  match s with BaRun bp _ _ => S (bp_size bp) | BaEnd => 0 end.
Definition ba_all (s : ba_state) : list (list arrival) * option refusal := ba_run (S (ba_size s)) s.

(* "out = [] ; for b in reader.batch_by_arrival(): out.append(b)": the arrival batches delivered and the
   exception that ended the loop if there was one *)
Definition lazy_batches (rows : list row) : list (list arrival) * option refusal := ba_all (ba_start rows).

(* ------------------------------------------------------------------------------------------------------ *)
(* WorkloadTrace (eudoxia/workload/workload.py), the consumer: it holds ONE batch of look-ahead.

     __init__:               self._arrival_iterator = reader.batch_by_arrival() ; self.advance_to_next_batch()
     advance_to_next_batch:  try: self.next_batch = next(self._arrival_iterator)
                             except StopIteration: self.next_batch = None          # nothing else is caught
     run_one_tick:           pipelines_to_return = []
                             while self.next_batch is not None and self.get_next_batch_tick() <= self.current_tick:
                                 for pa in self.next_batch: pipelines_to_return.append(pa.pipeline)
                                 self.advance_to_next_batch()
                             self.current_tick += 1 ; return pipelines_to_return

   The tick arithmetic is the subject of Model/Trace.v (C13); here the test
   "get_next_batch_tick() <= current_tick" of one call is an arbitrary predicate [ready] of next_batch. An
   exception that escapes from advance_to_next_batch escapes from __init__ / run_one_tick: the caller does not
   receive pipelines_to_return. (Kind 34 of the correspondence check drives the two generators only; the monitor of
   harness/props/C14.py judges a real WorkloadTrace against the statement C14_trace_lookahead_prefix.) *)
Record wt_state := { wt_next : option (list arrival); wt_iter : ba_state }.

Definition wt_advance (it : ba_state) : refusal + wt_state :=
  match ba_next it with
  | BYield b it' => inr {| wt_next := Some b; wt_iter := it' |}
  | BDone => inr {| wt_next := None; wt_iter := BaEnd |}
  | BRaise e => inl e
  end.

Definition wt_init (rows : list row) : refusal + wt_state := wt_advance (ba_start rows).

(* the while loop; [acc] = pipelines_to_return *)
Fixpoint wt_loop (fuel : nat) (ready : list arrival -> bool) (st : wt_state) (acc : list arrival)
  : refusal + (list arrival * wt_state) :=
  match fuel with
  | O => inr (acc, st)
  | S f =>
      match wt_next st with
      | None => inr (acc, st)
      | Some b =>
          if ready b then
            match wt_advance (wt_iter st) with
            | inl e => inl e
            | inr st' => wt_loop f ready st' (acc ++ b)
            end
          else inr (acc, st)
      end
  end.
(* run_one_tick (the iterator cannot yield more than [ba_size] further batches) *)
Definition wt_tick (ready : list arrival -> bool) (st : wt_state) : refusal + (list arrival * wt_state) :=
  wt_loop (S (S (ba_size (wt_iter st)))) ready st [].

(* successive calls of run_one_tick, one readiness predicate per call: what each call returned, up to the call
   that raised *)
Fixpoint wt_run (readys : list (list arrival -> bool)) (st : wt_state) : list (list arrival) * option refusal :=
  match readys with
  | [] => ([], None)
  | r :: t =>
      match wt_tick r st with
      | inl e => ([], Some e)
      | inr (d, st') => let (l, oe) := wt_run t st' in (d :: l, oe)
      end
  end.
Definition wt_replay (readys : list (list arrival -> bool)) (rows : list row) : list (list arrival) * option refusal :=
  match wt_init rows with
  | inl e => ([], Some e)
  | inr st => wt_run readys st
  end.

(* ------------------------------------------------------------------------------------------------------ *)
(* vocabulary of the statements *)

(* the eager counterpart of batch_by_arrival: maximal runs of consecutive arrivals whose arrival time equals
   that of the run's first element (the loop above on a list) *)
Fixpoint group_loop (t : Q) (cur : list arrival) (l : list arrival) : list (list arrival) :=
  match l with
  | [] => [cur]
  | a :: l' =>
      if Qeq_bool (pm_arr (snd a)) t then group_loop t (cur ++ [a]) l'
      else cur :: group_loop (pm_arr (snd a)) [a] l'
  end.
Definition arrival_groups (l : list arrival) : list (list arrival) :=
  match l with
  | [] => []
  | a :: l' => group_loop (pm_arr (snd a)) [a] l'
  end.

(* the pipelines the eager reader builds from the batches, each with its id *)
Definition built (b : list row) (a : arrival) : Prop := fst a = batch_pid b /\ create_pipeline b = inr (snd a).
