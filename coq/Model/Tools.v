(* The trace tools of eudoxia/tools.py: snap_command, jitter_command and the seed plumbing of
   sensitivity_sample_command / _sensitivity_task. Definitions only.

   snap, per arrival cell (float-faithful, parametric in the rounding [rnd]):
       original = float(row['arrival_seconds'])
       tick = math.floor(original * ticks_per_second)
       while (tick + 1) / ticks_per_second <= original: tick += 1
       while tick / ticks_per_second > original: tick -= 1
       snapped = tick / ticks_per_second
   [original * tps] is one float multiplication, [k / tps] (int / int) is the correctly rounded
   quotient. The two loops are modelled with explicit fuel; [None] = fuel exhausted (never observed on
   the domain, proved in Proofs/ToolsFacts.v for original * tps < 2^50).

   jitter, per pipeline: jittered = original + rng.uniform(0, delta) (one float addition; the draw is an
   input of the model), then pipelines.sort(key=lambda x: x[0]) (stable), rows re-emitted per pipeline.

   seeds: sample i gets seed = start_seed + i; the task stores it in the parameter dictionary under
   the key [seed_key_written]; WorkloadGenerator.__init__ seeds its generator from the parameter named
   [seed_param_read]. *)
From Coq Require Import ZArith QArith List Bool String.
Import ListNotations.
From Eudoxia Require Import Num.Rnd64.
Open Scope Q_scope.

(* ---------------------------------------------------------------------------------------------- *)
(* snap                                                                                            *)

Definition snap_fuel : nat := 4.

Section Snap.
Variable rnd : Q -> Q.

(* the float value of tick boundary k:  k / ticks_per_second *)
Definition boundary (tps k : Z) : Q := rnd (inject_Z k / inject_Z tps).

(* while (tick + 1) / tps <= original: tick += 1 *)
Fixpoint snap_up (fuel : nat) (tps : Z) (o : Q) (tick : Z) : option Z :=
  match fuel with
  | O => None
  | S f => if Qle_bool (boundary tps (tick + 1)) o then snap_up f tps o (tick + 1) else Some tick
  end.

(* while tick / tps > original: tick -= 1 *)
Fixpoint snap_down (fuel : nat) (tps : Z) (o : Q) (tick : Z) : option Z :=
  match fuel with
  | O => None
  | S f => if Qle_bool (boundary tps tick) o then Some tick else snap_down f tps o (tick - 1)
  end.

Definition snap_start (tps : Z) (o : Q) : Z := floorQ (rnd (o * inject_Z tps)).

Definition snap_tick (tps : Z) (o : Q) : option Z :=
  match snap_up snap_fuel tps o (snap_start tps o) with
  | Some t => snap_down snap_fuel tps o t
  | None => None
  end.

Definition snap_val (tps : Z) (o : Q) : option Q := option_map (boundary tps) (snap_tick tps o).

(* the file: every row is (arrival cell, all other cells); blank arrival cells are skipped *)
Definition snap_row {R : Type} (tps : Z) (row : option Q * R) : option (option Q * R) :=
  match fst row with
  | None => Some row
  | Some o => match snap_val tps o with Some v => Some (Some v, snd row) | None => None end
  end.

Fixpoint snap_file {R : Type} (tps : Z) (rows : list (option Q * R)) : option (list (option Q * R)) :=
  match rows with
  | [] => Some []
  | r :: t => match snap_row tps r, snap_file tps t with
              | Some r', Some t' => Some (r' :: t')
              | _, _ => None
              end
  end.
End Snap.

(* the documented rule: floor(arrival * tps) / tps in exact arithmetic *)
Definition snap_exact (tps : Z) (a : Q) : Q := inject_Z (floorQ (a * inject_Z tps)) / inject_Z tps.

(* ---------------------------------------------------------------------------------------------- *)
(* jitter                                                                                          *)

Section Jitter.
Variable rnd : Q -> Q.

(* jittered = original + jitter *)
Definition jitter_arrival (o d : Q) : Q := rnd (o + d).

Context {P : Type}.

(* list.sort(key=arrival): stable, ascending. [x] comes earlier in the file than everything in [l] *)
Fixpoint insert_pipe (x : Q * P) (l : list (Q * P)) : list (Q * P) :=
  match l with
  | [] => [x]
  | y :: t => if Qle_bool (fst x) (fst y) then x :: y :: t else y :: insert_pipe x t
  end.
Definition sort_pipes (l : list (Q * P)) : list (Q * P) := fold_right insert_pipe [] l.

Definition jitter_one (p : Q * Q * P) : Q * P := (jitter_arrival (fst (fst p)) (snd (fst p)), snd p).

(* input: per pipeline (original arrival, draw, payload) in file order *)
Definition jitter_pipes (l : list (Q * Q * P)) : list (Q * P) := sort_pipes (map jitter_one l).
End Jitter.

(* rows written for one pipeline: the arrival goes into its first row, the other rows keep a blank cell *)
Definition emit_pipe {R : Type} (p : Q * list R) : list (option Q * R) :=
  match snd p with
  | [] => []
  | r :: t => (Some (fst p), r) :: map (fun r' => (None, r')) t
  end.

Definition jitter_file {R : Type} (rnd : Q -> Q) (l : list (Q * Q * list R)) : list (option Q * R) :=
  flat_map emit_pipe (jitter_pipes rnd l).

(* ---------------------------------------------------------------------------------------------- *)
(* sensitivity-sample: which seed the workload generator of sample i receives                      *)

(* params_with_seed['random_seed'] = task.seed *)
Definition seed_key_written : string := "random_seed".
(* def __init__(self, ..., random_seed, ...): self.rng = np.random.default_rng(random_seed) *)
Definition seed_param_read : string := "random_seed".

Definition pdict := list (string * Z).

Fixpoint dict_set (k : string) (v : Z) (d : pdict) : pdict :=
  match d with
  | [] => [(k, v)]
  | (k', v') :: t => if String.eqb k k' then (k, v) :: t else (k', v') :: dict_set k v t
  end.

Fixpoint dict_get (k : string) (d : pdict) : option Z :=
  match d with
  | [] => None
  | (k', v) :: t => if String.eqb k k' then Some v else dict_get k t
  end.

(* seed = start_seed + i *)
Definition task_seed (start i : Z) : Z := (start + i)%Z.

(* params_with_seed = params.copy(); params_with_seed[KEY] = task.seed; WorkloadGenerator( **params_with_seed )
   -> the value bound to the parameter the generator seeds itself with (None: TypeError, missing argument) *)
Definition generator_seed (params : pdict) (seed : Z) : option Z :=
  dict_get seed_param_read (dict_set seed_key_written seed params).

Definition seed_used (params : pdict) (start i : Z) : option Z :=
  generator_seed params (task_seed start i).

Definition sample_seeds (params : pdict) (start : Z) (n : nat) : list (option Z) :=
  map (fun i => seed_used params start (Z.of_nat i)) (seq 0 n).

(* ---------------------------------------------------------------------------------------------- *)
(* The source statements this file was transcribed from, as harness/extract_c20.py normalises them;
   bridge obligations compare them with /repo on every run. *)

Definition snap_stmts : list string :=
  ["if row['arrival_seconds'].strip():"%string;
   "> original = float(row['arrival_seconds'])"%string;
   "> tick = math.floor(original * ticks_per_second)"%string;
   "> while (tick + 1) / ticks_per_second <= original:"%string;
   "> > tick += 1"%string;
   "> while tick / ticks_per_second > original:"%string;
   "> > tick -= 1"%string;
   "> snapped = tick / ticks_per_second"%string;
   "> row['arrival_seconds'] = snapped"%string;
   "writer.writerow(row)"%string].

Definition jitter_stmts : list string :=
  ["seed = seed if seed is not None else 42"%string;
   "rng = np.random.default_rng(seed)"%string;
   "pipeline_id = row['pipeline_id']"%string;
   "if pipeline_id != current_pipeline_id:"%string;
   "> if current_pipeline_rows:"%string;
   "> > pipelines.append((current_arrival, current_pipeline_rows))"%string;
   "> current_pipeline_id = pipeline_id"%string;
   "> original = float(row['arrival_seconds'])"%string;
   "> jitter = rng.uniform(0, delta)"%string;
   "> jittered = original + jitter"%string;
   "> row['arrival_seconds'] = jittered"%string;
   "> current_arrival = jittered"%string;
   "> current_pipeline_rows = [row]"%string;
   "else:"%string;
   "> current_pipeline_rows.append(row)"%string;
   "if current_pipeline_rows:"%string;
   "> pipelines.append((current_arrival, current_pipeline_rows))"%string;
   "pipelines.sort(key=lambda x: x[0])"%string;
   "for (arrival, rows) in pipelines:"%string;
   "> for row in rows:"%string;
   "> > writer.writerow(row)"%string].

Definition seed_stmts : list string :=
  ["params_with_seed = params.copy()"%string;
   "params_with_seed['random_seed'] = task.seed"%string;
   "workload_gen = WorkloadGenerator(**params_with_seed)"%string;
   "for i in range(sample_size):"%string;
   "> seed = start_seed + i"%string;
   "> task = SensitivityTask(workload_index=i, params_file=params_file, output_dir=output_dir, seed=seed, jitter_seed=jitter_seed)"%string;
   "> tasks.append(task)"%string;
   "results = pool.map(_sensitivity_task, tasks)"%string;
   "self.rng = np.random.default_rng(random_seed)"%string].
