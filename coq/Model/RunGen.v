(* Case runner for the workload generator model (kind 15).
   input : num_pipelines, num_operators (Q), cpu_io_ratio (Q), waiting_ticks_mean, nticks,
           then the draw stream: a list of draws, each  0 v  (choice result)  or  1 mu x  (normal, two Q).
   output: per tick the list of returned pipelines, each  id-counter, priority value, and per operator its
           parent indices and prototype index; then the number of draws left unused (0 when the stream is
           exactly what the implementation consumed). A stream that ends early / has the wrong kind of draw /
           a normal draw with another mu than the code passes there: bad_input. *)
From Coq Require Import ZArith QArith List Bool Arith.
Import ListNotations.
Close Scope Q_scope.
From Eudoxia Require Import Num.Rnd64 Model.Types Model.Generator Model.Codec.

Definition ddraw : dec draw :=
  dlet k <- dZ;
  if (k =? 0)%Z then (dlet v <- dZ; dret (DChoice v))
  else if (k =? 1)%Z then (dlet mu <- dQ; dlet x <- dQ; dret (DNormal mu x))
  else (fun _ => None).

Definition egop (o : gop) : list Z := eL eN (go_parents o) ++ eN (go_proto o).
Definition egpipe (p : gpipe) : list Z := [gp_id p; gp_prio p] ++ eL egop (gp_ops p).

Definition run_gen (l : list Z) : list Z :=
  match run_dec (dlet np <- dZ; dlet nops <- dQ; dlet ratio <- dQ; dlet wmean <- dZ; dlet nticks <- dZ;
                 dlet ds <- dlist ddraw; dret (np, nops, ratio, wmean, nticks, ds)) l with
  | Some (np, nops, ratio, wmean, nticks, ds) =>
      if (0 <=? np)%Z && (0 <=? nticks)%Z then
        let P := {| g_np := Z.to_nat np; g_nops := nops; g_ratio := ratio; g_wmean := wmean |} in
        match gen_run P (Z.to_nat nticks) (gen_init ds) with
        | Some (out, s) => eL (eL egpipe) out ++ eN (length (gs_draws s))
        | None => bad_input
        end
      else bad_input
  | None => bad_input
  end.

(* Case runner for the generator with COMPUTED class draws (kind 25).
   input : num_pipelines, num_operators (Q), cpu_io_ratio (Q), waiting_ticks_mean, nticks,
           interactive_prob, query_prob, batch_prob (three Q: the doubles of np.array([...])),
           then the stream: a list of entries, each  2 u  (the uniform double choice drew, a Q)  or  1 mu x.
   output: self.priority_probs (three Q), then exactly the output of kind 15.
   Negative probabilities, a float sum that is not positive (numpy raises on NaN / negative p), a u outside
   [0,1), a stream that does not fit the calls: bad_input. *)
Definition dudraw : dec udraw :=
  dlet k <- dZ;
  if (k =? 2)%Z then (dlet u <- dQ; dret (UUniform u))
  else if (k =? 1)%Z then (dlet mu <- dQ; dlet x <- dQ; dret (UNormal mu x))
  else (fun _ => None).

Definition udraw_ok (d : udraw) : bool :=
  match d with
  | UUniform u => Qle_bool 0%Q u && Qltb u 1%Q
  | UNormal _ _ => true
  end.

Definition run_gen_u (l : list Z) : list Z :=
  match run_dec (dlet np <- dZ; dlet nops <- dQ; dlet ratio <- dQ; dlet wmean <- dZ; dlet nticks <- dZ;
                 dlet pi <- dQ; dlet pq <- dQ; dlet pb <- dQ;
                 dlet ds <- dlist dudraw; dret (np, nops, ratio, wmean, nticks, [pi; pq; pb], ds)) l with
  | Some (np, nops, ratio, wmean, nticks, user, ds) =>
      if (0 <=? np)%Z && (0 <=? nticks)%Z && forallb (Qle_bool 0%Q) user && Qltb 0%Q (fsum user)
         && forallb udraw_ok ds then
        let P := {| g_np := Z.to_nat np; g_nops := nops; g_ratio := ratio; g_wmean := wmean |} in
        match gen_run_u P user (Z.to_nat nticks) ds with
        | Some (out, s) => flat_map eQ (prio_probs user) ++ eL (eL egpipe) out ++ eN (length (gs_draws s))
        | None => bad_input
        end
      else bad_input
  | None => bad_input
  end.
