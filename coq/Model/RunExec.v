(* Case runner for executor-level command histories (kind 3). *)
From Coq Require Import ZArith QArith List Bool Arith.
Import ListNotations.
Close Scope Q_scope.
From Eudoxia Require Import Num.Rnd64 Model.Types Model.Dag Model.Lifecycle Model.Container Model.Pool
  Model.Executor Model.Codec.

Definition dasg : dec asg :=
  dlet ops <- dlist dnat; dlet cpu <- dZ; dlet ram <- dQ; dlet pr <- dprio; dlet pool <- dZ;
  dret {| a_ops := ops; a_cpu := cpu; a_ram := ram; a_prio := pr; a_pool := pool |}.
Definition dsusp : dec susp :=
  dlet cid <- dnat; dlet pool <- dZ; dret {| su_cid := cid; su_pool := pool |}.

(* script table: scripts, then (op, cpus, script index) entries *)
Definition script_table := list (nat * Z * list Q).
Definition dscripts : dec script_table :=
  dlet scripts <- dlist (dlist dQ);
  dlet entries <- dlist (dlet op <- dnat; dlet cpus <- dZ; dlet i <- dnat; dret (op, cpus, i));
  dret (map (fun e => let '(op, cpus, i) := e in (op, cpus, nth i scripts [])) entries).

Fixpoint lookup_script (t : script_table) (op : nat) (cpus : Z) : list Q :=
  match t with
  | [] => []
  | (o, c, s) :: t' => if Nat.eqb o op && (c =? cpus)%Z then s else lookup_script t' op cpus
  end.

Definition bit (mask : Z) (b : Z) : bool := Z.odd (mask / b).

Definition dump_ct (c : container) : list Z := eN (c_id c) ++ [c_cpu c] ++ eQ (c_ram c).

Definition dump_pool (mask : Z) (p : pool) : list Z :=
  (if bit mask 1 then
     [p_avail_cpu p] ++ eQ (p_avail_ram p) ++ eL dump_ct (p_active p) ++ eL dump_ct (p_suspending p)
   else [])
  ++ (if bit mask 2 then
        eQ (p_consumed p) ++ eL (fun c => eN (c_id c) ++ eQ (c_mem c)) (p_active p)
      else [])
  ++ (if bit mask 16 then
        eL (fun c => eN (c_id c) ++ eB (c_can_suspend c) ++ eN (c_opidx c) ++ [c_ticks c]) (p_active p)
        ++ eL (fun c => eN (c_id c) ++ [c_susp_left c]) (p_suspending p)
        ++ eL (fun c => eN (c_id c)) (p_suspended p)
        ++ [p_num_completed p] ++ eL (fun z => [z]) (p_tick_times p)
      else []).

Definition dump_result (r : result) : list Z :=
  eN (r_cid r) ++ eL eN (r_ops r) ++ [r_cpu r] ++ eQ (r_ram r) ++ [prio_val (r_prio r)]
  ++ eN (r_pool r) ++ eB (r_err r).

Definition dump_estate (mask : Z) (s : estate) (res : list result) : list Z :=
  flat_map (dump_pool mask) (e_pools s)
  ++ (if bit mask 4 then eL dump_result res else [])
  ++ (if bit mask 8 then eL eost (w_st (e_world s)) else [])
  ++ (if bit mask 32 then flat_map (fun c => c) (w_cnt (e_world s)) else []).

Fixpoint exec_run (C : cfg) (mask : Z) (s : estate) (ticks : list (list susp * list asg)) : list Z :=
  match ticks with
  | [] => []
  | (ss, asgs) :: t =>
      match exec_step C s ss asgs with
      | Err e => [err_code e]
      | Ok (s', res) => 0%Z :: dump_estate mask s' res ++ exec_run C mask s' t
      end
  end.

Record exec_case := {
  xc_tps : Z; xc_over : bool; xc_multi : bool; xc_npools : nat; xc_cpu : Z; xc_ram : Q;
  xc_pipes : list (prio * dag); xc_scripts : script_table; xc_mask : Z;
  xc_ticks : list (list susp * list asg) }.

Definition dexec : dec exec_case :=
  dlet tps <- dZ; dlet over <- dbool; dlet multi <- dbool; dlet np <- dnat; dlet cpu <- dZ; dlet ram <- dQ;
  dlet pipes <- dlist (dpair dprio ddag); dlet scripts <- dscripts; dlet mask <- dZ;
  dlet ticks <- dlist (dpair (dlist dsusp) (dlist dasg));
  dret {| xc_tps := tps; xc_over := over; xc_multi := multi; xc_npools := np; xc_cpu := cpu; xc_ram := ram;
          xc_pipes := pipes; xc_scripts := scripts; xc_mask := mask; xc_ticks := ticks |}.

Definition cfg_of (x : exec_case) (rnd : Q -> Q) : cfg :=
  {| cf_static := mk_static (xc_pipes x);
     cf_script := lookup_script (xc_scripts x);
     cf_tps := xc_tps x; cf_overcommit := xc_over x; cf_multi := xc_multi x; cf_rnd := rnd |}.

Definition run_exec (l : list Z) : list Z :=
  match run_dec dexec l with
  | Some x =>
      if forallb (fun pg => wf_dagb (snd pg)) (xc_pipes x) && (0 <? xc_tps x)%Z then
        let C := cfg_of x rnd64 in
        exec_run C (xc_mask x) (init_estate C (xc_npools x) (xc_cpu x) (xc_ram x)) (xc_ticks x)
      else bad_input
  | None => bad_input
  end.
