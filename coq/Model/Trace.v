(* Trace replay: WorkloadTrace (eudoxia/workload/workload.py) over the batches produced by
   CSVWorkloadReader.batch_by_arrival (eudoxia/workload/csv_io.py), and the arrival column written by
   WorkloadTraceGenerator.generate_rows. Definitions only.

   Everything is parametric in the rounding function [rnd : Q -> Q] applied where the Python text
   performs a float operation:  tick_length_secs = 1.0 / tps,  arrival_seconds / tick_length_secs,
   tick * tick_length_secs.  [rnd := rnd64] is the code as it is (what the correspondence check compares
   with the implementation); [rnd := fun x => x] is the exact specification the property text states.
   The comparison [get_next_batch_tick() <= current_tick] is float-against-int, which Python decides
   exactly, so it is an exact comparison here as well. *)
From Coq Require Import ZArith QArith List Bool Arith String.
Import ListNotations.
Close Scope Q_scope.
From Eudoxia Require Import Num.Rnd64.

(* a pipeline of the trace: its position in the file and its arrival_seconds (the parsed float) *)
Definition item := (nat * Q)%type.

Fixpoint index_from (i : nat) (l : list Q) : list item :=
  match l with
  | [] => []
  | a :: t => (i, a) :: index_from (S i) t
  end.

(* batch_by_arrival: maximal runs of consecutive pipelines with equal (==) arrival_seconds. Equality of
   floats is an equivalence (NaN is outside the domain), so grouping from the right gives the same
   runs as the left-to-right loop of the source. *)
Fixpoint group (l : list item) : list (list item) :=
  match l with
  | [] => []
  | x :: t =>
      match group t with
      | [] => [[x]]
      | [] :: r => [x] :: r
      | (y :: b) :: r => if Qeq_bool (snd x) (snd y) then (x :: y :: b) :: r else [x] :: (y :: b) :: r
      end
  end.

(* self.next_batch[0].arrival_seconds *)
Definition batch_arrival (b : list item) : Q :=
  match b with [] => 0%Q | x :: _ => snd x end.

(* 1.0 / ticks_per_second *)
Definition tick_length (rnd : Q -> Q) (tps : Z) : Q := rnd (1 / inject_Z tps)%Q.

(* get_next_batch_tick: arrival_seconds / self.tick_length_secs *)
Definition next_batch_tick (rnd : Q -> Q) (tl : Q) (a : Q) : Q := rnd (a / tl)%Q.

(* the while loop of run_one_tick: hand out every batch whose tick is <= current_tick *)
Fixpoint take_ready (key : Q -> Q) (cur : Z) (bs : list (list item)) : list item * list (list item) :=
  match bs with
  | [] => ([], [])
  | b :: r =>
      if Qle_bool (key (batch_arrival b)) (inject_Z cur)
      then let (d, r') := take_ready key cur r in (b ++ d, r')
      else ([], bs)
  end.

(* n successive calls of run_one_tick starting with current_tick = cur: what each call returned *)
Fixpoint replay_from (key : Q -> Q) (cur : Z) (bs : list (list item)) (n : nat) : list (list item) :=
  match n with
  | O => []
  | S n' => let (d, r) := take_ready key cur bs in d :: replay_from key (cur + 1) r n'
  end.

(* [key] is get_next_batch_tick as a function of the batch's arrival; the answer lists, per tick, the
   file positions of the pipelines returned *)
Definition replay_key (key : Q -> Q) (start : Z) (arrivals : list Q) (nticks : nat) : list (list nat) :=
  map (map fst) (replay_from key start (group (index_from 0 arrivals)) nticks).

(* a WorkloadTrace whose current_tick is [start] (0 after construction) *)
Definition replay_at (rnd : Q -> Q) (tps : Z) (start : Z) (arrivals : list Q) (nticks : nat) : list (list nat) :=
  let tl := tick_length rnd tps in
  replay_key (next_batch_tick rnd tl) start arrivals nticks.

Definition replay (rnd : Q -> Q) (tps : Z) (arrivals : list Q) (nticks : nat) : list (list nat) :=
  replay_at rnd tps 0 arrivals nticks.

(* The same replay with get_next_batch_tick evaluated once per batch instead of once per tick and batch
   (it is a pure function of the batch). This is what the case runners execute;
   Proofs/TraceFacts.v [replay_at_fast_eq] proves it equal to [replay_at]. *)
Fixpoint take_ready_k (cur : Z) (bs : list (Q * list item)) : list item * list (Q * list item) :=
  match bs with
  | [] => ([], [])
  | (k, b) :: r =>
      if Qle_bool k (inject_Z cur)
      then let (d, r') := take_ready_k cur r in (b ++ d, r')
      else ([], bs)
  end.

Fixpoint replay_from_k (cur : Z) (bs : list (Q * list item)) (n : nat) : list (list item) :=
  match n with
  | O => []
  | S n' => let (d, r) := take_ready_k cur bs in d :: replay_from_k (cur + 1) r n'
  end.

Definition tag_batch (key : Q -> Q) (b : list item) : Q * list item := (key (batch_arrival b), b).

Definition replay_at_fast (rnd : Q -> Q) (tps : Z) (start : Z) (arrivals : list Q) (nticks : nat) : list (list nat) :=
  let tl := tick_length rnd tps in
  map (map fst) (replay_from_k start (map (tag_batch (next_batch_tick rnd tl)) (group (index_from 0 arrivals))) nticks).

(* generate_rows: arrival_seconds = tick * self.tick_length_secs *)
Definition gen_arrival (rnd : Q -> Q) (tps : Z) (tick : Z) : Q :=
  rnd (inject_Z tick * rnd (1 / inject_Z tps))%Q.

(* the exact rounding: the specification *)
Definition exact (x : Q) : Q := x.

(* The source text this file was transcribed from, as harness/extract_c13.py normalises it; the bridge
   obligation trace_exprs compares with /repo on every run. *)
Definition trace_exprs : list string :=
  ["init: self.tick_length_secs = 1.0 / ticks_per_second"%string;
    "init: self.current_tick = 0"%string;
    "get_next_batch_tick: arrival_seconds = self.next_batch[0].arrival_seconds ; return arrival_seconds / self.tick_length_secs"%string;
    "run_one_tick: while self.next_batch is not None and self.get_next_batch_tick() <= self.current_tick"%string;
    "run_one_tick: body for pipeline_arrival in self.next_batch: pipelines_to_return.append(pipeline_arrival.pipeline) ; self.advance_to_next_batch()"%string;
    "run_one_tick: self.current_tick += 1"%string;
    "batch_by_arrival: if current_arrival_seconds is None"%string;
    "batch_by_arrival: if pipeline_arrival.arrival_seconds == current_arrival_seconds"%string;
    "batch_by_arrival: if current_batch"%string;
    "_parse_row: arrival_seconds = float(arrival_str) if arrival_str else None"%string;
    "generator init: self.tick_length_secs = 1.0 / ticks_per_second"%string;
    "generator init: self.max_ticks = int(duration_secs * ticks_per_second)"%string;
    "generate_rows: for tick in range(self.max_ticks)"%string;
    "generate_rows: arrival_seconds = tick * self.tick_length_secs"%string].

(* the first tick t >= 0 with q <= t: where the replay (current_tick starting at 0) hands out a batch
   whose get_next_batch_tick is q *)
Definition first_tick (q : Q) : Z := Z.max 0 (ceilQ q).
