(* Case runner for the lazy trace reader (Model/CsvLazy.v): kind 34. *)
From Coq Require Import ZArith QArith List Bool Arith.
Import ListNotations.
Close Scope Q_scope.
From Eudoxia Require Import Model.Types Model.Timing Model.Codec Model.Csv Model.RunCsv Model.CsvLazy.

(* 0 = the generator ended normally (StopIteration), 11 = an exception escaped from it *)
Definition eflag (oe : option refusal) : list Z := [match oe with None => 0 | Some _ => 11 end]%Z.

(* kind 34. input: the rows of a file (as kind 14).
   output: the arrival batches a consumer of batch_by_arrival() received, in order, each a list of pipelines encoded
   as in kind 14 (pipeline_id token, priority value, arrival, operators), then the flag of that generator; then
   the pipelines a consumer of batch_by_pipeline() on the same file received, and the flag of that generator. *)
Definition run_csv_lazy (l : list Z) : list Z :=
  match run_dec (dlist drow) l with
  | Some rows =>
      let (bs, oe) := lazy_batches rows in
      let (ps, oe') := lazy_arrivals rows in
      eL (eL epipe) bs ++ eflag oe ++ eL epipe ps ++ eflag oe'
  | None => bad_input
  end.
