(* Two pieces of the statistics of run_simulator (eudoxia/simulator.py) that [final_stats] does not carry
   as fields, and the independent recount of the container run lengths. Definitions only.

   1. failure_error_counts (simulator.py:314, 348-351): a dict error string -> count, filled in the loop
        failures = [r for r in executor_results if r.failed()]
        for failure in failures: failure_error_counts[failure.error] += 1
      and returned as dict(failure_error_counts). The executor has one error string, "OOM"
      (Container.kill("OOM") is the only caller of _mark_completed with an error): [r_err r = true] means
      error "OOM", coded 1 here. The dict is an association list in insertion order.

      The harness monitor (harness/props/C06.py, `failure_error_counts`) checks the implementation's dict
      against `{'OOM': fail} if fail else {}` with `fail` the number of failed results of the run; that is
      exactly the rule [Proofs/StatsExtraFacts.failure_counts] proves for this definition:
      [failure_error_counts logs = if failures =? 0 then [] else [(1, failures)]].

   2. container_tick_times, recounted from the event log alone. Container ids are handed out by the
      executor in order of creation (pool by pool within a tick), one per assignment, so the container
      with id [cid] was created in the tick whose assignments cover position [cid] of the concatenated
      assignment lists; a container is ticked in the tick of its creation, so a result reported in tick
      [t] for a container created in tick [b] has run [t - b + 1] ticks. (harness/props/C06.py recounts
      `times` in the same way.) *)
From Coq Require Import ZArith QArith List Bool Arith.
Import ListNotations.
Close Scope Q_scope.
From Eudoxia Require Import Model.Types Model.Container Model.Pool Model.Executor Model.Sched Model.Simulator.

(* ---- failure_error_counts ---- *)

(* code of the error string of a failed result: the only one is "OOM" *)
Definition oom_code : nat := 1.
Definition result_error_code (r : result) : nat := oom_code.

(* d[k] += 1 on a defaultdict(int), insertion ordered *)
Fixpoint fec_incr (k : nat) (d : list (nat * Z)) : list (nat * Z) :=
  match d with
  | [] => [(k, 1%Z)]
  | (a, v) :: t => if Nat.eqb a k then (a, (v + 1)%Z) :: t else (a, v) :: fec_incr k t
  end.

Definition failure_error_counts (logs : list tick_log) : list (nat * Z) :=
  fold_left (fun d r => fec_incr (result_error_code r) d)
            (filter r_err (concat (map tl_results logs))) [].

(* ---- container run lengths, from the log ---- *)

(* the tick in which container [cid] was created; [t] is the tick of the first log, [base] the number of
   containers created before it *)
Fixpoint rc_birth_from (t : Z) (base : nat) (logs : list tick_log) (cid : nat) : Z :=
  match logs with
  | [] => t
  | lg :: r =>
      let base' := base + length (tl_asgs lg) in
      if Nat.ltb cid base' then t else rc_birth_from (t + 1)%Z base' r cid
  end.
Definition rc_birth (logs : list tick_log) (cid : nat) : Z := rc_birth_from 0%Z 0 logs cid.

(* one run length per reported result (successful or failed), in the order of the log *)
Fixpoint rc_run_lengths_from (birth : nat -> Z) (t : Z) (logs : list tick_log) : list Z :=
  match logs with
  | [] => []
  | lg :: r => map (fun x => (t - birth (r_cid x) + 1)%Z) (tl_results lg)
               ++ rc_run_lengths_from birth (t + 1)%Z r
  end.
Definition rc_run_lengths (logs : list tick_log) : list Z :=
  rc_run_lengths_from (rc_birth logs) 0%Z logs.
