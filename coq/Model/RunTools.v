(* Case runners for the trace tools (kinds 20, 21, 22). *)
From Coq Require Import ZArith QArith List Bool Arith String.
Import ListNotations.
Close Scope Q_scope.
From Eudoxia Require Import Num.Rnd64 Model.Types Model.Tools Model.Codec.

(* kind 20. input: tps, the arrival cells float(cell) of a file in row order (blank cells left out);
   output: per cell [1; num; den] = the value written, [0] = loop fuel exhausted *)
Definition run_snap (l : list Z) : list Z :=
  match run_dec (dlet tps <- dZ; dlet os <- dlist dQ; dret (tps, os)) l with
  | Some (tps, os) =>
      if (0 <? tps)%Z then eL (eO eQ) (map (snap_val rnd64 tps) os) else bad_input
  | None => bad_input
  end.

(* kind 21. input: per pipeline in file order (number of rows, float(arrival cell), the draw);
   output: the pipelines in the order written: (index in the input, number of rows, new arrival) *)
Fixpoint number {A} (i : nat) (l : list A) : list (nat * A) :=
  match l with [] => [] | x :: t => (i, x) :: number (S i) t end.

Definition run_jitter (l : list Z) : list Z :=
  match run_dec (dlist (dlet n <- dnat; dlet o <- dQ; dlet d <- dQ; dret (n, o, d))) l with
  | Some ps =>
      let tagged := map (fun ip : nat * (nat * Q * Q) =>
                           let '(i, (n, o, d)) := ip in (o, d, (i, n))) (number 0 ps) in
      eL (fun p : Q * (nat * nat) => eN (fst (snd p)) ++ eN (snd (snd p)) ++ eQ (fst p))
         (jitter_pipes rnd64 tagged)
  | None => bad_input
  end.

(* kind 22. input: has_default (0/1), the default random_seed of the parameter file, start_seed, sample size;
   output: per sample the seed its WorkloadGenerator receives ([0] = the call raises) *)
Definition run_seed (l : list Z) : list Z :=
  match run_dec (dlet h <- dbool; dlet dflt <- dZ; dlet start <- dZ; dlet n <- dnat; dret (h, dflt, start, n)) l with
  | Some (h, dflt, start, n) =>
      let params : pdict :=
        (("duration"%string, 600%Z) :: (if h then [("random_seed"%string, dflt)] else []))
        ++ [("ticks_per_second"%string, 100000%Z)] in
      eL (eO (fun z : Z => [z])) (sample_seeds params start n)
  | None => bad_input
  end.
