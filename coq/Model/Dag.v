(* DAG and DAGIterator (eudoxia/utils/dag.py). Definitions only. *)
From Coq Require Import List Arith Bool.
Import ListNotations.
From Eudoxia Require Import Model.Types.

(* A DAG as the code builds it: node j (0-based insertion index) has parent list [nth j g []];
   add_node accepts only parents that are already in the DAG, i.e. earlier nodes. *)
Definition dag := list (list nat).
Definition parents (g : dag) (j : nat) : list nat := nth j g [].
Definition nodes (g : dag) : list nat := seq 0 (length g).

Definition wf_dag (g : dag) : Prop :=
  forall j, j < length g -> NoDup (parents g j) /\ forall p, In p (parents g j) -> p < j.

(* boolean version, used to guard decoded inputs *)
Fixpoint nodupb (l : list nat) : bool :=
  match l with [] => true | x :: t => negb (memb x t) && nodupb t end.
Definition wf_dagb (g : dag) : bool :=
  forallb (fun j => nodupb (parents g j) && forallb (fun p => Nat.ltb p j) (parents g j)) (nodes g).

(* children of i in insertion order (add_node appends the child to parent.children) *)
Definition children (g : dag) (i : nat) : list nat :=
  filter (fun j => memb i (parents g j)) (nodes g).
Definition roots (g : dag) : list nat :=
  filter (fun j => match parents g j with [] => true | _ => false end) (nodes g).

Definition ready (g : dag) (returned : list nat) (c : nat) : bool :=
  negb (memb c returned) && forallb (fun p => memb p returned) (parents g c).

(* DAGIterator.__next__ until StopIteration: [out] is the reversed list of returned nodes *)
Fixpoint iter (g : dag) (fuel : nat) (queue out : list nat) : list nat :=
  match fuel with
  | O => rev out
  | S f =>
      match queue with
      | [] => rev out
      | curr :: q =>
          let out' := curr :: out in
          iter g f (q ++ filter (ready g out') (children g curr)) out'
      end
  end.
Definition iterate (g : dag) : list nat := iter g (length g) (roots g) [].
