(* Case runner for the replay of a trace file (Model/TraceFile.v): kind 44. *)
From Coq Require Import ZArith QArith List Bool Arith.
Import ListNotations.
Close Scope Q_scope.
From Eudoxia Require Import Num.Rnd64 Model.Types Model.Timing Model.Codec Model.Csv Model.RunCsv Model.CsvLazy
  Model.Trace Model.TraceFile.

(* a delivered pipeline: its pipeline_id token and the arrival_seconds it was paired with *)
Definition edelivered (a : arrival) : list Z := eN (fst a) ++ eQ (pm_arr (snd a)).

Definition esurfaced (o : option surfaced) : list Z :=
  match o with
  | None => [0]
  | Some AtConstruction => [11; -1]
  | Some (AtTick t) => [11; Z.of_nat t]
  end%Z.

(* kind 44. input: ticks_per_second, the number of run_one_tick calls, the rows of the file (as kind 14).
   output: for every call that returned, the pipelines it returned (pipeline_id token, arrival_seconds); then 0 if
   neither the constructor nor a call raised, else 11 and the number of the call that raised (-1: the constructor). *)
Definition run_trace_file (l : list Z) : list Z :=
  match run_dec (dlet tps <- dZ; dlet n <- dnat; dlet rows <- dlist drow; dret (tps, n, rows)) l with
  | Some (tps, n, rows) =>
      if (0 <? tps)%Z then
        let res := file_replay tps n rows in
        eL (eL edelivered) (fst res) ++ esurfaced (surfaced_in rows res)
      else bad_input
  | None => bad_input
  end.
