(* Trace files (eudoxia/workload/csv_io.py) at the level of PARSED CELLS: CSVWorkloadReader.batch_by_pipeline /
   create_pipeline_from_batch and WorkloadTraceGenerator._pipeline_to_rows / generate_rows. Definitions only.

   Below this model (trusted, exercised by the correspondence check): the csv module (quoting, DictReader /
   DictWriter), float(str) and repr(float), file I/O. A cell is what _parse_row hands on:
     pipeline_id, operator_id  tokens: the harness numbers the distinct strings by first appearance
     arrival_seconds           [option Q]   ('' after strip -> None, else float)
     priority                  code: 0 = blank after strip, 1/2/3 = QUERY/INTERACTIVE/BATCH_PIPELINE,
                               4 = any other text
     parents                   the operator tokens of  [p.strip() for p in s.split(';') if p.strip()]
     cpu_scaling               code: position in Segment.SCALING_FUNCS (0..6), 7 = any other text
     memory_gb                 [option Q]   ('' -> None; "0" -> Some 0: the test is on the STRING)
     baseline_cpu_seconds, storage_read_gb   Q (exact value of the double) *)
From Coq Require Import ZArith QArith List Bool Arith String.
Import ListNotations.
From Eudoxia Require Import Model.Types Model.Timing.
Close Scope Q_scope.
Close Scope Z_scope.

Record row := {
  r_pid : nat;
  r_arr : option Q;
  r_prio : nat;
  r_op : nat;
  r_parents : list nat;
  r_cpu : Q;
  r_law : nat;
  r_mem : option Q;
  r_read : Q
}.

(* What a Pipeline object is for this property: priority, the arrival time it is paired with
   (PipelineArrival), and its operators in node_lookup (= insertion) order; each operator has its
   [parents] list as insertion indices, in the order of the Python list (duplicates possible: add_node
   appends once per entry), and exactly one Segment. *)
Record op_m := { om_parents : list nat; om_seg : seg }.
Record pipeline_m := { pm_prio : prio; pm_arr : Q; pm_ops : list op_m }.

(* why a file is refused; the harness sees all of them as one class (an exception) *)
Inductive refusal :=
| REmptyBatch          (* ValueError "Cannot create pipeline from empty batch" (unreachable from a file) *)
| RBlankPriority       (* KeyError '' from Priority[''] : first row without priority *)
| RUnknownPriority     (* KeyError from Priority[text] *)
| RMixedIds            (* ValueError "All rows in batch must have same pipeline_id" (unreachable from a file) *)
| RFirstNoPriority     (* ValueError "First row ... must have priority set" (shadowed by RBlankPriority) *)
| RFirstNoArrival      (* ValueError "First row ... must have arrival_seconds set" *)
| RLaterPriority       (* ValueError "Only first row ... should have priority set" *)
| RLaterArrival        (* ValueError "Only first row ... should have arrival_seconds set" *)
| RUndefinedParent     (* KeyError from operators[pid] *)
| RUnknownLaw.         (* EudoxiaException "Invalid scaling func passed to segment" *)

(* Priority[priority_str] *)
Definition prio_of_cell (c : nat) : option prio :=
  match c with 1 => Some Query | 2 => Some Interactive | 3 => Some Batch | _ => None end.
(* pipeline.priority.name *)
Definition prio_cell (p : prio) : nat :=
  match p with Query => 1 | Interactive => 2 | Batch => 3 end.

(* cpu_scaling in Segment.SCALING_FUNCS; the code is the position in Timing.law_table *)
Definition law_of_cell (c : nat) : option law :=
  match c with
  | 0 => Some Const | 1 => Some Log | 2 => Some Sqrt | 3 => Some Linear3 | 4 => Some Linear7
  | 5 => Some Squared | 6 => Some Exp | _ => None
  end.

(* ---- batch_by_pipeline: consecutive rows with the same pipeline_id form one batch ---- *)
Fixpoint batch_loop (cur_id : nat) (cur : list row) (rows : list row) : list (list row) :=
  match rows with
  | [] => [cur]                                        (* "if current_batch: yield" after the loop *)
  | r :: rest =>
      if r_pid r =? cur_id then batch_loop cur_id (cur ++ [r]) rest
      else cur :: batch_loop (r_pid r) [r] rest
  end.
Definition batches (rows : list row) : list (list row) :=
  match rows with
  | [] => []
  | r :: rest => batch_loop (r_pid r) [r] rest
  end.

(* ---- create_pipeline_from_batch ---- *)

(* the verification loop "for i, row in enumerate(batch)" *)
Fixpoint check_rows (pid : nat) (first : bool) (b : list row) : option refusal :=
  match b with
  | [] => None
  | r :: t =>
      if negb (r_pid r =? pid) then Some RMixedIds
      else if first then
        if r_prio r =? 0 then Some RFirstNoPriority
        else match r_arr r with
             | None => Some RFirstNoArrival
             | Some _ => check_rows pid false t
             end
      else
        if negb (r_prio r =? 0) then Some RLaterPriority
        else match r_arr r with
             | Some _ => Some RLaterArrival
             | None => check_rows pid false t
             end
  end.

(* the dict  operators : operator_id -> Operator; an Operator is its insertion index. A later row with the
   same operator_id overwrites the entry: the newest binding is in front and found first. *)
Definition opdict := list (nat * nat).
Fixpoint dict_get (d : opdict) (k : nat) : option nat :=
  match d with
  | [] => None
  | (k', v) :: t => if k' =? k then Some v else dict_get t k
  end.
(* [operators[pid] for pid in parent_ids] : KeyError on the first unknown id *)
Fixpoint resolve (d : opdict) (ps : list nat) : option (list nat) :=
  match ps with
  | [] => Some []
  | p :: t =>
      match dict_get d p with
      | None => None
      | Some i => match resolve d t with None => None | Some l => Some (i :: l) end
      end
  end.

(* the construction loop: row number i (0-based) becomes the operator with insertion index i *)
Fixpoint build_ops (d : opdict) (i : nat) (b : list row) : refusal + list op_m :=
  match b with
  | [] => inr []
  | r :: t =>
      match resolve d (r_parents r) with
      | None => inl RUndefinedParent
      | Some ps =>
          match law_of_cell (r_law r) with
          | None => inl RUnknownLaw
          | Some l =>
              match build_ops ((r_op r, i) :: d) (S i) t with
              | inl e => inl e
              | inr ops =>
                  inr ({| om_parents := ps;
                          om_seg := {| sg_cpu_secs := r_cpu r; sg_law := l; sg_mem := r_mem r;
                                       sg_read := r_read r |} |} :: ops)
              end
          end
      end
  end.

Definition create_pipeline (b : list row) : refusal + pipeline_m :=
  match b with
  | [] => inl REmptyBatch
  | r0 :: _ =>
      match prio_of_cell (r_prio r0) with
      | None => inl (if r_prio r0 =? 0 then RBlankPriority else RUnknownPriority)
      | Some p =>
          match check_rows (r_pid r0) true b with
          | Some e => inl e
          | None =>
              match build_ops [] 0 b with
              | inl e => inl e
              | inr ops =>
                  inr {| pm_prio := p;
                         pm_arr := match r_arr r0 with Some a => a | None => 0%Q end;
                         pm_ops := ops |}
              end
          end
      end
  end.

Fixpoint read_batches (bs : list (list row)) : refusal + list pipeline_m :=
  match bs with
  | [] => inr []
  | b :: t =>
      match create_pipeline b with
      | inl e => inl e
      | inr p => match read_batches t with inl e => inl e | inr ps => inr (p :: ps) end
      end
  end.

(* list(CSVWorkloadReader(f).batch_by_pipeline()), with the cause of a refusal ... *)
Definition read_rows_c (rows : list row) : refusal + list pipeline_m := read_batches (batches rows).
(* ... and as the harness observes it: any exception is "refused" *)
Definition read_rows (rows : list row) : res (list pipeline_m) :=
  match read_rows_c rows with inl _ => Err EOther | inr ps => Ok ps end.
(* the pipeline_id each yielded Pipeline carries *)
Definition batch_ids (rows : list row) : list nat :=
  map (fun b => match b with r :: _ => r_pid r | [] => 0 end) (batches rows).

(* ---- WorkloadTraceGenerator._pipeline_to_rows ---- *)
(* operator i is named op{i+1} (token i); a parent is named through operators.index(parent), which for
   distinct Operator objects is the parent's insertion index; the law name comes from the reverse lookup
   in SCALING_FUNCS (seven distinct functions, so it is the name the segment was built with). *)
Definition op_row (pid : nat) (p : pipeline_m) (i : nat) (o : op_m) : row :=
  {| r_pid := pid;
     r_arr := if i =? 0 then Some (pm_arr p) else None;
     r_prio := if i =? 0 then prio_cell (pm_prio p) else 0;
     r_op := i;
     r_parents := om_parents o;
     r_cpu := sg_cpu_secs (om_seg o);
     r_law := law_idx (sg_law (om_seg o));
     r_mem := sg_mem (om_seg o);
     r_read := sg_read (om_seg o) |}.

Fixpoint pipeline_rows_from (pid : nat) (p : pipeline_m) (i : nat) (ops : list op_m) : list row :=
  match ops with
  | [] => []
  | o :: t => op_row pid p i o :: pipeline_rows_from pid p (S i) t
  end.
Definition pipeline_rows (pid : nat) (p : pipeline_m) : list row := pipeline_rows_from pid p 0 (pm_ops p).

(* generate_rows: the k-th pipeline written is named p{k+1} (token k) *)
Fixpoint write_from (k : nat) (ps : list pipeline_m) : list row :=
  match ps with
  | [] => []
  | p :: t => pipeline_rows k p ++ write_from (S k) t
  end.
Definition write_rows (ps : list pipeline_m) : list row := write_from 0 ps.

(* ---- vocabulary of the property statement ---- *)

(* a pipeline the DAG class can hold and the writer can write: at least one operator, and every
   operator's parents were added before it (add_node asserts "Parent not in DAG") *)
Definition wf_pipeline (p : pipeline_m) : Prop :=
  pm_ops p <> [] /\
  forall i o, nth_error (pm_ops p) i = Some o -> Forall (fun j => j < i) (om_parents o).

(* the file uses the writer's naming: the k-th batch is pipeline token k, its i-th row operator token i *)
Definition canonical_batch (k : nat) (b : list row) : Prop :=
  (forall r t, b = r :: t -> r_pid r = k) /\
  forall i r, nth_error b i = Some r -> r_op r = i.
Definition canonical_ids (rows : list row) : Prop :=
  forall k b, nth_error (batches rows) k = Some b -> canonical_batch k b.

Definition blank_arrival (r : row) : row :=
  {| r_pid := r_pid r; r_arr := None; r_prio := r_prio r; r_op := r_op r; r_parents := r_parents r;
     r_cpu := r_cpu r; r_law := r_law r; r_mem := r_mem r; r_read := r_read r |}.
Definition rows_eq_except_arrival (a b : list row) : Prop := map blank_arrival a = map blank_arrival b.
(* the same pipelines, possibly paired with other arrival times *)
Definition same_except_arrival (a b : list pipeline_m) : Prop :=
  Forall2 (fun p q => pm_prio p = pm_prio q /\ pm_ops p = pm_ops q) a b.

(* the format rules of the property text, for one batch *)
Definition parents_defined (b : list row) : Prop :=
  forall n r t, nth_error b n = Some r -> In t (r_parents r) ->
  exists m r', m < n /\ nth_error b m = Some r' /\ r_op r' = t.
Definition batch_rules (b : list row) : Prop :=
  match b with
  | [] => False
  | r0 :: t =>
      (1 <= r_prio r0 <= 3) /\ r_arr r0 <> None /\
      Forall (fun r => r_prio r = 0 /\ r_arr r = None) t /\
      Forall (fun r => r_law r < 7) b /\
      parents_defined b
  end.

(* the CSV header the writer emits and the per-column expressions of _parse_row this file's cell
   conventions were read from (bridge obligations csv_fields, csv_parse_exprs) *)
Definition csv_fields : list string :=
  ["pipeline_id"; "arrival_seconds"; "priority"; "operator_id"; "parents"; "baseline_cpu_seconds";
   "cpu_scaling"; "memory_gb"; "storage_read_gb"]%string.
Definition csv_parse_exprs : list string :=
  ["arrival_str = row_dict.get('arrival_seconds', '').strip()";
   "arrival_seconds = float(arrival_str) if arrival_str else None";
   "pipeline_id=row_dict['pipeline_id']";
   "arrival_seconds=arrival_seconds";
   "priority=row_dict.get('priority', '').strip()";
   "operator_id=row_dict['operator_id']";
   "parents=row_dict.get('parents', '').strip()";
   "baseline_cpu_seconds=float(row_dict['baseline_cpu_seconds'])";
   "cpu_scaling=row_dict['cpu_scaling']";
   "memory_gb=float(row_dict['memory_gb']) if row_dict.get('memory_gb') else None";
   "storage_read_gb=float(row_dict['storage_read_gb'])"]%string.
