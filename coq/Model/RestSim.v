(* The REST scheduler (eudoxia/scheduler/rest.py) INSIDE the simulator loop: a [gstep] of Model/SimGen.v.

   1. serialisation of the real state: Container.to_dict, ResourcePool.to_dict, ExecutionResult.to_dict,
      Operator.to_dict, Pipeline.to_dict applied to the executor state / the world of the simulator
      ([view], [view_of]);
   2. an external policy: any function from its own private state and the request body to a reply and its
      next private state (an arbitrary, possibly stateful, HTTP server);
   3. the reply turned into commands: _parse_suspensions, _parse_assignments, Assignment.__init__
      (operators go to ASSIGNED as each Assignment object is created), in the evaluation order of the code;
   4. [rest_gstep]: rest_scheduler with the bookkeeping of Model/Rest.v ([rest_step]: tick counter, poll
      clock, other_pipelines, operator_lookup) fed from the real state;
   5. [direct_gstep]: the in-process counterpart. No operator_lookup, no wire: the policy is called on the
      same view at the ticks a call discipline [call_at] names and its decisions become commands directly
      (an operator id denotes the operator object itself);
   6. the observable part of the simulator state, defined without the serialisers, and the projection of a
      request body back to it.

   Identifiers: pipelines are indices into the static description, operators carry global numbers; on the
   wire pipeline k is [Z.of_nat k], operator o is [Z.of_nat o], container c is [Z.of_nat c].

   Boundaries of the model (all on the reply side, identical in both paths):
   - "cpu" of an assignment must denote an integer (go/eudoxia/types.go: CPU int); the executor model
     counts CPUs in Z. A non-integral value ends the run with EOther in BOTH paths.
   - is_resume / force_run / pipeline_id of an Assignment are parsed but never read by the executor
     (Model/Pool.v's [asg] has no such field).
   - a negative container id in a suspension names no container: it is mapped to the executor's next
     (not yet used) container number, which the pool refuses like any unknown container.
   Definitions only. *)
From Coq Require Import ZArith QArith List Bool Arith.
Import ListNotations.
From Eudoxia Require Import Num.Rnd64 Model.Types Model.Dag Model.Lifecycle Model.Container Model.Pool
  Model.Executor Model.Sched Model.Simulator Model.SimGen Model.Rest.
Close Scope Q_scope.
Close Scope Z_scope.

(* ---------------------------------------------------------------------------------------------- *)
(* 1. serialisation of the real state *)

(* Container.get_pipeline_id: the set of pipelines of its operators: none / exactly one / several *)
Inductive pid_view := PidNone | PidOne (k : Z) | PidMultiple.

Definition distinct (l : list nat) : list nat := fold_left (fun acc x => add_absent x acc) l [].

(* Container.to_dict: exactly the keys [container_keys] *)
Record cont_view := {
  cv_id : Z;                (* container_id *)
  cv_pipeline : pid_view;   (* pipeline_id *)
  cv_ops : list Z;          (* operator_ids *)
  cv_cpu : Z;               (* cpu = assignment.cpu *)
  cv_ram : Q;               (* ram_gb = assignment.ram *)
  cv_mem : Q;               (* current_memory_gb *)
  cv_prio : prio }.

Definition container_to_dict (S : static) (c : container) : cont_view :=
  {| cv_id := Z.of_nat (c_id c);
     cv_pipeline := match distinct (map (op_pipe S) (c_ops c)) with
                    | [] => PidNone
                    | [k] => PidOne (Z.of_nat k)
                    | _ => PidMultiple
                    end;
     cv_ops := map Z.of_nat (c_ops c);
     cv_cpu := c_cpu c; cv_ram := c_ram c; cv_mem := c_mem c; cv_prio := c_prio c |}.

(* ResourcePool.to_dict: exactly the keys [pool_keys] *)
Record pool_view := {
  pov_id : Z; pov_max_cpu : Z; pov_max_ram : Q; pov_avail_cpu : Z; pov_avail_ram : Q; pov_consumed : Q;
  pov_active : list cont_view; pov_suspending : list cont_view; pov_suspended : list cont_view }.

Definition pool_to_dict (S : static) (p : pool) : pool_view :=
  {| pov_id := Z.of_nat (p_id p); pov_max_cpu := p_max_cpu p; pov_max_ram := p_max_ram p;
     pov_avail_cpu := p_avail_cpu p; pov_avail_ram := p_avail_ram p; pov_consumed := p_consumed p;
     pov_active := map (container_to_dict S) (p_active p);
     pov_suspending := map (container_to_dict S) (p_suspending p);
     pov_suspended := map (container_to_dict S) (p_suspended p) |}.

(* ExecutionResult.to_dict: exactly the keys [result_keys]; error is "OOM" or null *)
Record result_view := {
  rv_ops : list Z; rv_cpu : Z; rv_ram : Q; rv_prio : prio; rv_pool : Z; rv_cid : Z; rv_err : bool }.

Definition result_to_dict (r : result) : result_view :=
  {| rv_ops := map Z.of_nat (r_ops r); rv_cpu := r_cpu r; rv_ram := r_ram r; rv_prio := r_prio r;
     rv_pool := Z.of_nat (r_pool r); rv_cid := Z.of_nat (r_cid r); rv_err := r_err r |}.

(* an operator of the world as Model/Rest.v's [op_true]; its needs are never looked at by [op_to_dict]
   (RestFacts.payload_hides_needs), and the model keeps them in [cf_script], which [view] never mentions *)
Definition op_true_of (S : static) (w : world) (op : nat) : op_true :=
  {| ot_id := Z.of_nat op; ot_state := st_of w op;
     ot_parent_states := map (st_of w) (op_parents S op); ot_needs := [] |}.

(* runtime.arrival_tick: None until record_arrival *)
Definition arrival_opt (k : nat) (arr : list (nat * Z)) : option Z :=
  match find (fun x => Nat.eqb (fst x) k) arr with Some x => Some (snd x) | None => None end.

(* Pipeline.to_dict. is_complete is runtime.is_pipeline_successful() and has_failures is
   runtime.state_counts[FAILED] > 0: both read the COUNTERS of the runtime status, as the code does *)
Definition pipeline_to_dict (S : static) (w : world) (arr : list (nat * Z)) (k : nat) : pipe_view :=
  {| pv_id := Z.of_nat k;
     pv_prio := pd_prio (pipe_of S k);
     pv_arrival := arrival_opt k arr;
     pv_complete := is_successful S w k;
     pv_failures := has_failures w k;
     pv_ops := map (fun op => op_to_dict (op_true_of S w op)) (pd_order (pipe_of S k)) |}.

(* the request body: exactly the keys [request_keys] *)
Record payload_full := {
  pf_tick : Z;
  pf_time : Q;
  pf_results : list result_view;
  pf_new : list pipe_view;
  pf_other : list pipe_view;
  pf_pools : list pool_view }.

(* the payload literal of rest_scheduler for scheduler tick [t], the new pipelines [newp], the previously
   known ones [other] and the arrival ticks [arr] *)
Definition view (C : cfg) (e : estate) (results : list result) (newp other : list nat)
           (arr : list (nat * Z)) (t : Z) : payload_full :=
  let S := cf_static C in
  {| pf_tick := t;
     pf_time := now_of (cf_rnd C) (cf_tps C) t;
     pf_results := map result_to_dict results;
     pf_new := map (pipeline_to_dict S (e_world e) arr) newp;
     pf_other := map (pipeline_to_dict S (e_world e) arr) other;
     pf_pools := map (pool_to_dict S) (e_pools e) |}.

(* ---------------------------------------------------------------------------------------------- *)
(* 2. external policies *)

(* the server behind /schedule: private state x request body -> reply x next private state *)
Definition policy (PS : Type) : Type := PS -> payload_full -> reply * PS.

(* ---------------------------------------------------------------------------------------------- *)
(* 3. the reply as commands *)

(* the value of "cpu" as a CPU count *)
Definition cpu_of_Q (q : Q) : option Z :=
  let r := Qred q in if (Z.pos (Qden r) =? 1)%Z then Some (Qnum r) else None.

(* one iteration of the loop of _parse_assignments up to the call of Assignment(...), in the evaluation
   order of the text: the operator lookups ([known]: is the id a key of the table), Priority[...], ops[0],
   then the argument assertions of Assignment.__init__. Same order as Rest.parse_assignment
   (RestSimFacts.parse_asg_rest). *)
Definition parse_asg (known : Z -> bool) (a : assignment) : res asg :=
  if forallb known (as_ops a) then
    match prio_named (as_prio a) with
    | None => Err EOther                        (* KeyError: Priority[a['priority']] *)
    | Some pr =>
        match as_ops a with
        | [] => Err EOther                      (* IndexError: ops[0] *)
        | _ :: _ =>
            if Qltb 0 (as_cpu a) && Qltb 0 (as_ram a) then
              match cpu_of_Q (as_cpu a) with
              | Some c => Ok {| a_ops := map Z.to_nat (as_ops a); a_cpu := c; a_ram := as_ram a;
                                a_prio := pr; a_pool := as_pool a |}
              | None => Err EOther              (* outside the executor model: fractional CPU count *)
              end
            else Err EBadAssignArgs             (* assert cpu > 0 / ram > 0 *)
        end
    end
  else Err EOther.                              (* KeyError: s.operator_lookup[op_id] *)

(* the loop: each Assignment object is created (its operators go to ASSIGNED) before the next item of the
   reply is looked at *)
Fixpoint build_assignments (C : cfg) (known : Z -> bool) (w : world) (l : list assignment)
  : res (world * list asg) :=
  match l with
  | [] => Ok (w, [])
  | a :: t =>
      do x <- parse_asg known a;
      do w1 <- mk_assignment C w x;
      do r <- build_assignments C known w1 t;
      let '(w2, xs) := r in Ok (w2, x :: xs)
  end.

(* _parse_suspensions: Suspend(container_id, pool_id) *)
Definition susp_of (e : estate) (s : suspension) : susp :=
  {| su_cid := if (su_container s <? 0)%Z then e_next e else Z.to_nat (su_container s);
     Pool.su_pool := Rest.su_pool s |}.

(* ---------------------------------------------------------------------------------------------- *)
(* 4. rest_scheduler as a gstep *)

(* a pipeline as the bookkeeping of Model/Rest.v sees it *)
Definition pipe_entry (S : static) (k : nat) : pipe :=
  (Z.of_nat k, map Z.of_nat (pd_order (pipe_of S k))).
Definition pid (p : pipe) : nat := Z.to_nat (fst p).

(* which of the given pipelines answer True to runtime_status().is_pipeline_successful() *)
Definition succ_ids (S : static) (w : world) (ps : list pipe) : list Z :=
  filter (fun z => is_successful S w (Z.to_nat z)) (map fst ps).

(* the input of one invocation of [rest_step], read off the real state *)
Definition tick_in_of (C : cfg) (e : estate) (results : list result) (newp : list nat) (st : rs) : tick_in :=
  let new := map (pipe_entry (cf_static C)) newp in
  mkin new (length results) (succ_ids (cf_static C) (e_world e) (rs_other st ++ new)).

(* the scheduler object: the bookkeeping of rest.py, the arrival ticks held by the Pipeline objects it
   knows (runtime.arrival_tick, written by the simulator before the scheduler runs), and the server *)
Record rxs (PS : Type) := mkrxs { rx_rs : rs; rx_arr : list (nat * Z); rx_pol : PS }.
Arguments mkrxs {PS}. Arguments rx_rs {PS}. Arguments rx_arr {PS}. Arguments rx_pol {PS}.

Definition rx_init {PS} (ps0 : PS) : rxs PS := mkrxs rs_init [] ps0.

(* does this invocation send a request? (the negation of the early return) *)
Definition rest_calls_at {PS} (C : cfg) (poll : Q) (x : rxs PS) (results : list result) (newp : list nat)
  : bool :=
  negb (early_return (cf_rnd C) (cf_tps C) poll (rx_rs x)
                     (mkin (map (pipe_entry (cf_static C)) newp) (length results) [])).

(* the request body of this invocation, built from the real state *)
Definition view_of {PS} (C : cfg) (e : estate) (results : list result) (newp : list nat) (tick : Z)
           (x : rxs PS) : payload_full :=
  view C e results newp (map pid (rs_other (rx_rs x)))
       (rx_arr x ++ map (fun p => (p, tick)) newp) (rs_tick (rx_rs x) + 1)%Z.

Definition rest_request {PS} (C : cfg) (poll : Q) (x : rxs PS) (e : estate) (results : list result)
           (newp : list nat) (tick : Z) : option payload_full :=
  if rest_calls_at C poll x results newp then Some (view_of C e results newp tick x) else None.

Definition rest_gstep {PS} (C : cfg) (poll : Q) (pol : policy PS) : gstep (rxs PS) :=
  fun x e results newp tick =>
    let arr := rx_arr x ++ map (fun p => (p, tick)) newp in
    let i := tick_in_of C e results newp (rx_rs x) in
    match rest_step (cf_rnd C) (cf_tps C) poll (rx_rs x) i with
    | (st', None) => Ok (mkrxs st' arr (rx_pol x), e_world e, [], [])
    | (st', Some _) =>
        (* for p in pipelines: for op in p.values: s.operator_lookup[str(op.id)] = op *)
        let lookup1 := register (rs_lookup (rx_rs x)) (ti_new i) in
        (* payload = {...}; resp = requests.post(url, json=payload); response = resp.json() *)
        let '(r0, ps') := pol (rx_pol x) (view_of C e results newp tick x) in
        match decode_reply (encode_reply r0) with
        | None => Err EOther
        | Some r =>
            (* _parse_suspensions, then _parse_assignments; the bookkeeping update is in [st'] *)
            let susps := map (susp_of e) (rp_susp r) in
            do wa <- build_assignments C (fun o => memZ o lookup1) (e_world e) (rp_asg r);
            let '(w', asgs) := wa in
            Ok (mkrxs st' arr ps', w', susps, asgs)
        end
    end.

(* ---------------------------------------------------------------------------------------------- *)
(* 5. the in-process counterpart *)

(* its state: the pipelines it was given and that were not complete when it last looked, their arrival
   ticks, and the private state of the policy *)
Record dxs (PS : Type) := mkdxs { dx_other : list nat; dx_arr : list (nat * Z); dx_pol : PS }.
Arguments mkdxs {PS}. Arguments dx_other {PS}. Arguments dx_arr {PS}. Arguments dx_pol {PS}.

Definition dx_init {PS} (ps0 : PS) : dxs PS := mkdxs [] [] ps0.

(* an operator id denotes an operator object: any non-negative number *)
Definition is_op_id (o : Z) : bool := (0 <=? o)%Z.

(* [call_at tick]: is the policy consulted in simulator tick [tick] (ticks count from 0; the request of
   simulator tick t says "tick": t + 1, as rest.py counts its own invocations from 1) *)
Definition direct_gstep {PS} (C : cfg) (call_at : Z -> bool) (pol : policy PS) : gstep (dxs PS) :=
  fun d e results newp tick =>
    let S := cf_static C in
    let arr := dx_arr d ++ map (fun p => (p, tick)) newp in
    let known := fold_left (fun l p => add_absent p l) newp (dx_other d) in
    if call_at tick then
      let '(r, ps') := pol (dx_pol d) (view C e results newp (dx_other d) arr (tick + 1)%Z) in
      let susps := map (susp_of e) (rp_susp r) in
      do wa <- build_assignments C is_op_id (e_world e) (rp_asg r);
      let '(w', asgs) := wa in
      Ok (mkdxs (filter (fun k => negb (is_successful S (e_world e) k)) known) arr ps', w', susps, asgs)
    else Ok (mkdxs known arr (dx_pol d), e_world e, [], []).

(* ---------------------------------------------------------------------------------------------- *)
(* 6. what a scheduler may see of the simulator state, without any serialiser *)

Inductive pid_obs := NoPipeline | OnePipeline (k : nat) | ManyPipelines.
Record obs_cont := {
  oc_id : nat; oc_pipeline : pid_obs; oc_ops : list nat; oc_cpu : Z; oc_ram : Q; oc_mem : Q; oc_prio : prio }.
Record obs_pool := {
  ol_id : nat; ol_max_cpu : Z; ol_max_ram : Q; ol_avail_cpu : Z; ol_avail_ram : Q; ol_consumed : Q;
  ol_active : list obs_cont; ol_suspending : list obs_cont; ol_suspended : list obs_cont }.
Record obs_result := {
  or_ops : list nat; or_cpu : Z; or_ram : Q; or_prio : prio; or_pool : nat; or_cid : nat; or_err : bool }.
Record obs_op := { oo_id : nat; oo_state : ostate; oo_assignable : bool; oo_parents_complete : bool }.
Record obs_pipe := {
  oq_id : nat; oq_prio : prio; oq_arrival : option Z; oq_complete : bool; oq_failures : bool;
  oq_ops : list obs_op }.
Record observation := {
  ob_tick : Z; ob_time : Q;
  ob_results : list obs_result; ob_new : list obs_pipe; ob_other : list obs_pipe; ob_pools : list obs_pool }.

(* the state itself, field by field, through the accessors of the executor / lifecycle model *)
Definition observe_cont (S : static) (c : container) : obs_cont :=
  {| oc_id := c_id c;
     oc_pipeline := match distinct (map (op_pipe S) (c_ops c)) with
                    | [] => NoPipeline | [k] => OnePipeline k | _ => ManyPipelines end;
     oc_ops := c_ops c; oc_cpu := c_cpu c; oc_ram := c_ram c; oc_mem := c_mem c; oc_prio := c_prio c |}.
Definition observe_pool (S : static) (p : pool) : obs_pool :=
  {| ol_id := p_id p; ol_max_cpu := p_max_cpu p; ol_max_ram := p_max_ram p;
     ol_avail_cpu := p_avail_cpu p; ol_avail_ram := p_avail_ram p; ol_consumed := p_consumed p;
     ol_active := map (observe_cont S) (p_active p);
     ol_suspending := map (observe_cont S) (p_suspending p);
     ol_suspended := map (observe_cont S) (p_suspended p) |}.
Definition observe_result (r : result) : obs_result :=
  {| or_ops := r_ops r; or_cpu := r_cpu r; or_ram := r_ram r; or_prio := r_prio r; or_pool := r_pool r;
     or_cid := r_cid r; or_err := r_err r |}.
Definition observe_op (S : static) (w : world) (op : nat) : obs_op :=
  {| oo_id := op; oo_state := st_of w op; oo_assignable := valid (st_of w op) Assigned;
     oo_parents_complete := parents_complete S w op |}.
Definition observe_pipe (S : static) (w : world) (arr : list (nat * Z)) (k : nat) : obs_pipe :=
  {| oq_id := k; oq_prio := pd_prio (pipe_of S k);
     oq_arrival := if existsb (fun x => Nat.eqb (fst x) k) arr then Some (arrival_of k arr) else None;
     oq_complete := is_successful S w k; oq_failures := has_failures w k;
     oq_ops := map (observe_op S w) (pd_order (pipe_of S k)) |}.

Definition observable_part (C : cfg) (e : estate) (results : list result) (newp other : list nat)
           (arr : list (nat * Z)) (t : Z) : observation :=
  {| ob_tick := t; ob_time := now_of (cf_rnd C) (cf_tps C) t;
     ob_results := map observe_result results;
     ob_new := map (observe_pipe (cf_static C) (e_world e) arr) newp;
     ob_other := map (observe_pipe (cf_static C) (e_world e) arr) other;
     ob_pools := map (observe_pool (cf_static C)) (e_pools e) |}.

(* a request body read back *)
Definition cont_of_view (v : cont_view) : obs_cont :=
  {| oc_id := Z.to_nat (cv_id v);
     oc_pipeline := match cv_pipeline v with
                    | PidNone => NoPipeline | PidOne k => OnePipeline (Z.to_nat k) | PidMultiple => ManyPipelines end;
     oc_ops := map Z.to_nat (cv_ops v); oc_cpu := cv_cpu v; oc_ram := cv_ram v; oc_mem := cv_mem v;
     oc_prio := cv_prio v |}.
Definition pool_of_view (v : pool_view) : obs_pool :=
  {| ol_id := Z.to_nat (pov_id v); ol_max_cpu := pov_max_cpu v; ol_max_ram := pov_max_ram v;
     ol_avail_cpu := pov_avail_cpu v; ol_avail_ram := pov_avail_ram v; ol_consumed := pov_consumed v;
     ol_active := map cont_of_view (pov_active v);
     ol_suspending := map cont_of_view (pov_suspending v);
     ol_suspended := map cont_of_view (pov_suspended v) |}.
Definition result_of_view (v : result_view) : obs_result :=
  {| or_ops := map Z.to_nat (rv_ops v); or_cpu := rv_cpu v; or_ram := rv_ram v; or_prio := rv_prio v;
     or_pool := Z.to_nat (rv_pool v); or_cid := Z.to_nat (rv_cid v); or_err := rv_err v |}.
Definition op_of_view (v : op_view) : obs_op :=
  {| oo_id := Z.to_nat (ov_id v); oo_state := ov_state v; oo_assignable := ov_assignable v;
     oo_parents_complete := ov_parents_complete v |}.
Definition pipe_of_view (v : pipe_view) : obs_pipe :=
  {| oq_id := Z.to_nat (pv_id v); oq_prio := pv_prio v; oq_arrival := pv_arrival v;
     oq_complete := pv_complete v; oq_failures := pv_failures v; oq_ops := map op_of_view (pv_ops v) |}.
Definition state_of_payload (p : payload_full) : observation :=
  {| ob_tick := pf_tick p; ob_time := pf_time p;
     ob_results := map result_of_view (pf_results p);
     ob_new := map pipe_of_view (pf_new p);
     ob_other := map pipe_of_view (pf_other p);
     ob_pools := map pool_of_view (pf_pools p) |}.

(* ---------------------------------------------------------------------------------------------- *)
(* 7. vocabulary of the theorems *)

(* every operator listed under a pipeline belongs to it (operator ids are unique across pipelines) *)
Definition order_pipe (S : static) : Prop :=
  forall k o, In o (pd_order (pipe_of S k)) -> op_pipe S o = k.

(* the operator ids a request shows under new_pipelines / other_pipelines *)
Definition listed_ops (p : payload_full) : list Z :=
  flat_map (fun v => map ov_id (pv_ops v)) (pf_new p ++ pf_other p).

(* an admissible policy names only operators it was shown in the request it answers *)
Definition admissible {PS} (pol : policy PS) : Prop :=
  forall ps p a o, In a (rp_asg (fst (pol ps p))) -> In o (as_ops a) -> In o (listed_ops p).

(* [call_at] names exactly the ticks in which the REST run sends a request *)
Definition discipline_agrees {PS} (C : cfg) (poll : Q) (pol : policy PS) (call_at : Z -> bool)
           (tick : Z) (s : gsim (rxs PS)) (arrivals : list (list nat)) : Prop :=
  forall k sk newp,
    nth_error (gsim_states C (rest_gstep C poll pol) tick s arrivals) k = Some sk ->
    nth_error arrivals k = Some newp ->
    call_at (tick + Z.of_nat k)%Z = rest_calls_at C poll (gm_sched sk) (gm_results sk) newp.

(* the ticks of a REST run in which a request is sent, as a list and as a call discipline *)
Definition rest_call_trace {PS} (C : cfg) (poll : Q) (pol : policy PS) (tick : Z) (s : gsim (rxs PS))
           (arrivals : list (list nat)) : list bool :=
  map (fun sn => rest_calls_at C poll (gm_sched (fst sn)) (gm_results (fst sn)) (snd sn))
      (combine (gsim_states C (rest_gstep C poll pol) tick s arrivals) arrivals).
Definition schedule_of (tick0 : Z) (tr : list bool) : Z -> bool :=
  fun t => nth (Z.to_nat (t - tick0)) tr false.

(* the request bodies of a REST run, tick by tick (None: early return) *)
Definition rest_requests {PS} (C : cfg) (poll : Q) (pol : policy PS) (tick : Z) (s : gsim (rxs PS))
           (arrivals : list (list nat)) : list (option payload_full) :=
  map (fun skn => let '(sk, k, newp) := skn in
         rest_request C poll (gm_sched sk) (gm_exec sk) (gm_results sk) newp (tick + Z.of_nat k)%Z)
      (combine (combine (gsim_states C (rest_gstep C poll pol) tick s arrivals)
                        (seq 0 (length arrivals))) arrivals).

(* "executed exactly as given": every field of a command is the field of the reply item. The CPU count is
   the number the reply gives; an operator id o stands for operator [Z.to_nat o] (= o for the ids the
   bridge ever registers, which are all of the form [Z.of_nat n]) *)
Definition same_asg (a : assignment) (x : asg) : Prop :=
  a_ops x = map Z.to_nat (as_ops a) /\ (inject_Z (a_cpu x) == as_cpu a)%Q /\ a_ram x = as_ram a /\
  prio_val (a_prio x) = as_prio a /\ a_pool x = as_pool a.
Definition same_susp (e : estate) (s : suspension) (x : susp) : Prop :=
  Pool.su_pool x = Rest.su_pool s /\
  ((0 <= su_container s)%Z -> Z.of_nat (su_cid x) = su_container s) /\
  ((su_container s < 0)%Z -> su_cid x = e_next e).

(* ---------------------------------------------------------------------------------------------- *)
(* 8. a small concrete policy (naive-like): the first assignable operator whose parents are complete, of the
   first listed pipeline that is neither complete nor failed, gets everything that is free in the first
   pool that has a free CPU and free RAM. Stateless. *)

Definition first_ready (ps : list pipe_view) : option (Z * prio) :=
  match flat_map (fun v =>
           if pv_complete v || pv_failures v then []
           else map (fun o => (ov_id o, pv_prio v))
                    (filter (fun o => ov_assignable o && ov_parents_complete o) (pv_ops v))) ps with
  | [] => None
  | x :: _ => Some x
  end.

Definition first_free (ps : list pool_view) : option pool_view :=
  find (fun p => (0 <? pov_avail_cpu p)%Z && Qltb 0 (pov_avail_ram p)) ps.

Definition greedy_policy : policy unit :=
  fun _ p =>
    (match first_ready (pf_other p ++ pf_new p), first_free (pf_pools p) with
     | Some (o, pr), Some pl =>
         {| rp_susp := [];
            rp_asg := [{| as_ops := [o]; as_cpu := inject_Z (pov_avail_cpu pl); as_ram := pov_avail_ram pl;
                          as_prio := prio_val pr; as_pool := pov_id pl; as_resume := false;
                          as_force := false |}] |}
     | _, _ => {| rp_susp := []; rp_asg := [] |}
     end, tt).
