(* Single entry point of the executable model: [run kind input]. Both back ends of the
   correspondence check (vm_compute in the kernel, extracted OCaml) call only this. *)
From Coq Require Import ZArith List Bool.
Import ListNotations.
From Eudoxia Require Import Model.Codec Model.RunLife Model.RunExec Model.RunTime Model.RunSim Model.RunCsv Model.RunCsvLazy Model.RunTools Model.RunGen Model.RunTrace Model.RunRest Model.RunRestSim Model.RunTraceFile.

Definition run (kind : Z) (l : list Z) : list Z :=
  match kind with
  | 1 => run_dag l
  | 2 => run_life l
  | 3 => run_exec l
  | 4 => run_time l
  | 5 => run_sim l
  | 13 => run_trace l
  | 23 => run_gentrace l
  | 14 => run_csv_read l
  | 15 => run_gen l
  | 25 => run_gen_u l
  | 24 => run_csv_write l
  | 34 => run_csv_lazy l
  | 44 => run_trace_file l
  | 19 => run_rest l
  | 29 => run_rest_codec l
  | 39 => run_restsim l
  | 20 => run_snap l
  | 21 => run_jitter l
  | 22 => run_seed l
  | _ => bad_input
  end%Z.

Definition list_Z_eqb (a b : list Z) : bool :=
  (fix go a b := match a, b with
                 | [], [] => true
                 | x :: a', y :: b' => Z.eqb x y && go a' b'
                 | _, _ => false
                 end) a b.

(* indices of the cases on which the model's answer differs from the observed one *)
Fixpoint mismatches (kind : Z) (i : nat) (cases : list (list Z * list Z)) : list nat :=
  match cases with
  | [] => []
  | (inp, obs) :: t =>
      if list_Z_eqb (run kind inp) obs then mismatches kind (S i) t
      else i :: mismatches kind (S i) t
  end.
