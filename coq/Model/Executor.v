(* Executor.run_one_tick (eudoxia/executor/executor.py) and Assignment.__init__
   (eudoxia/executor/assignment.py). Definitions only. *)
From Coq Require Import ZArith QArith List Bool Arith.
Import ListNotations.
Close Scope Q_scope.
From Eudoxia Require Import Num.Rnd64 Model.Types Model.Dag Model.Lifecycle Model.Container Model.Pool.

Record estate := { e_world : world; e_pools : list pool; e_next : nat }.

Definition init_estate (C : cfg) (npools : nat) (cpu : Z) (ram : Q) : estate :=
  {| e_world := init_world (cf_static C);
     e_pools := map (fun i => new_pool i cpu ram) (seq 0 npools);
     e_next := 0 |}.

(* Assignment.__init__: the three assertions, then every operator to ASSIGNED, one by one *)
Definition mk_assignment (C : cfg) (w : world) (a : asg) : res world :=
  if Nat.eqb (length (a_ops a)) 0 then Err EBadAssignArgs
  else if (a_cpu a <=? 0)%Z then Err EBadAssignArgs
  else if Qleb (a_ram a) 0%Q then Err EBadAssignArgs
  else transition_all (cf_static C) w (a_ops a) Assigned.

Fixpoint mk_assignments (C : cfg) (w : world) (asgs : list asg) : res world :=
  match asgs with
  | [] => Ok w
  | a :: t => do w' <- mk_assignment C w a; mk_assignments C w' t
  end.

Definition pool_in_range (n : nat) (z : Z) : bool := (0 <=? z)%Z && (z <? Z.of_nat n)%Z.

Fixpoint pools_tick (C : cfg) (w : world) (next : nat) (ps : list pool)
         (ss : list susp) (asgs : list asg) : res (world * nat * list pool * list result) :=
  match ps with
  | [] => Ok (w, next, [], [])
  | p :: t =>
      let mine_s := filter (fun s => (su_pool s =? Z.of_nat (p_id p))%Z) ss in
      let mine_a := filter (fun a => (a_pool a =? Z.of_nat (p_id p))%Z) asgs in
      do r <- pool_tick C w next p mine_s mine_a;
      let '(w', next', p', res) := r in
      do rt <- pools_tick C w' next' t ss asgs;
      let '(w'', next'', t', res') := rt in
      Ok (w'', next'', p' :: t', res ++ res')
  end.

Definition exec_tick (C : cfg) (s : estate) (ss : list susp) (asgs : list asg)
  : res (estate * list result) :=
  let n := length (e_pools s) in
  if negb (forallb (fun x => pool_in_range n (su_pool x)) ss
           && forallb (fun a => pool_in_range n (a_pool a)) asgs)
  then Err EBadPool
  else
    do r <- pools_tick C (e_world s) (e_next s) (e_pools s) ss asgs;
    let '(w, next, ps, res) := r in
    Ok ({| e_world := w; e_pools := ps; e_next := next |}, res).

(* One tick as a custom scheduler drives it: Assignment objects are created (scheduler phase), then
   the executor runs. *)
Definition exec_step (C : cfg) (s : estate) (ss : list susp) (asgs : list asg)
  : res (estate * list result) :=
  do w <- mk_assignments C (e_world s) asgs;
  exec_tick C {| e_world := w; e_pools := e_pools s; e_next := e_next s |} ss asgs.
