(* WorkloadGenerator (eudoxia/workload/workload.py) as a function of its DRAW STREAM: the values that
   self.rng.choice(...) and self.rng.normal(...) return, in call order. Definitions only.

   A draw is either the result of  rng.choice(a=priority_values, p=priority_probs)  (the chosen
   Priority value 1/2/3) or the result of  rng.normal(mu, ...)  together with the mu the code passed
   (exact rationals of the doubles). The model reproduces the control flow of run_one_tick /
   generate_pipelines / generate_segment_not_heavy_io / generate_segment_from_val and answers [None]
   when the stream ends early, has the wrong kind of draw at some point, or a normal draw was requested
   with another mu than the code passes there. No float arithmetic happens on these paths (only
   comparisons with exactly representable constants and int()), so nothing is rounded.

   Second reading (gen_run_u, kind 25): the class draw is not an input but COMPUTED, in binary64 as numpy does
   it, from the uniform double that choice obtains from the bit generator (choice_float) and from the
   normalised probabilities that __init__ computes from the three user probabilities (prio_probs). *)
From Coq Require Import ZArith QArith List Bool Arith String.
Import ListNotations.
Close Scope Q_scope.
From Eudoxia Require Import Num.Rnd64 Model.Types Model.Timing.

Inductive draw :=
| DChoice (v : Z)            (* rng.choice(a=self.priority_values, p=self.priority_probs) returned v *)
| DNormal (mu x : Q).        (* rng.normal(mu, ...) returned x *)

Definition Qltb (a b : Q) : bool := negb (Qle_bool b a).    (* a < b *)

(* ---- the prototype ladder of generate_segment_from_val (bridge obligation gen_ladder) ---- *)
Record rung := {
  r_lo : option Q;     (* Some a: the test contains  val >= a  *)
  r_hi : option Q;     (* Some b: the test contains  val < b   *)
  r_cpu : Q;           (* baseline_cpu_seconds *)
  r_law : law;         (* cpu_scaling *)
  r_read : Q           (* storage_read_gb *)
}.

Definition ladder : list rung :=
  [ {| r_lo := None;                r_hi := Some ((-1) # 1)%Q; r_cpu := 1 # 1;  r_law := Const;   r_read := 55 # 1 |};
    {| r_lo := Some ((-1) # 1)%Q;   r_hi := Some ((-1) # 2)%Q; r_cpu := 2 # 1;  r_law := Sqrt;    r_read := 55 # 1 |};
    {| r_lo := Some ((-1) # 2)%Q;   r_hi := Some (0 # 1)%Q;    r_cpu := 5 # 1;  r_law := Linear3; r_read := 45 # 1 |};
    {| r_lo := Some (0 # 1)%Q;      r_hi := Some (1 # 2)%Q;    r_cpu := 15 # 1; r_law := Linear3; r_read := 75 # 2 |};
    {| r_lo := Some (1 # 2)%Q;      r_hi := Some (1 # 1)%Q;    r_cpu := 20 # 1; r_law := Linear7; r_read := 30 # 1 |};
    {| r_lo := Some (1 # 1)%Q;      r_hi := Some (3 # 2)%Q;    r_cpu := 40 # 1; r_law := Linear7; r_read := 20 # 1 |};
    {| r_lo := Some (3 # 2)%Q;      r_hi := None;              r_cpu := 80 # 1; r_law := Squared; r_read := 10 # 1 |} ]%Q.

(* generate_query_segment (bridge obligation gen_query_proto) *)
Definition query_rung : rung :=
  {| r_lo := None; r_hi := None; r_cpu := 15 # 1; r_law := Linear3; r_read := 35 # 1 |}.
Definition query_proto : nat := 7.

Definition law_name (l : law) : string :=
  match l with
  | Const => "const" | Log => "log" | Sqrt => "sqrt" | Linear3 => "linear3"
  | Linear7 => "linear7" | Squared => "squared" | Exp => "exp"
  end%string.

(* what the extractor emits for a rung *)
Definition rung_row (r : rung) : option Q * option Q * Q * string * Q :=
  (r_lo r, r_hi r, r_cpu r, law_name (r_law r), r_read r).

(* the test of one if/elif arm:  [val >= lo and] [val < hi] *)
Definition rung_test (v : Q) (r : rung) : bool :=
  (match r_lo r with Some a => Qle_bool a v | None => true end) &&
  (match r_hi r with Some b => Qltb v b | None => true end).

(* if / elif / ... : the first arm whose test holds; falling off the end is Python's implicit None *)
Fixpoint first_rung (v : Q) (l : list rung) (i : nat) : option nat :=
  match l with
  | [] => None
  | r :: t => if rung_test v r then Some i else first_rung v t (S i)
  end.
Definition proto_of_val (v : Q) : option nat := first_rung v ladder 0.

(* index reported for an operator; 8 stands for "no segment" (unreachable: GeneratorFacts.proto_of_val_some) *)
Definition no_proto : nat := 8.
Definition proto_idx (v : Q) : nat :=
  match proto_of_val v with Some i => i | None => no_proto end.

(* generate_segment_not_heavy_io:  if val < -1: val = -1 *)
Definition clip_consts : Q * Q := (((-1) # 1)%Q, ((-1) # 1)%Q).   (* bridge obligation gen_clip *)
Definition clip (x : Q) : Q := if Qltb x (fst clip_consts) then snd clip_consts else x.

(* ---- pipelines ---- *)
Record gop := {
  go_parents : list nat;     (* indices (creation order) of the operators passed as parents *)
  go_proto : nat             (* prototype of its single segment: 0..6 ladder rung, 7 query *)
}.
Record gpipe := {
  gp_id : Z;                 (* n of pipeline_id "p{n}" *)
  gp_prio : Z;               (* Priority value *)
  gp_ops : list gop          (* in creation order *)
}.

Record gparams := {
  g_np : nat;                (* num_pipelines *)
  g_nops : Q;                (* num_operators: mu of the operator-count draw *)
  g_ratio : Q;               (* cpu_io_ratio: mu of the prototype draws *)
  g_wmean : Z                (* waiting_ticks_mean = int(waiting_seconds_mean * ticks_per_second) *)
}.

(* int(rng.normal(num_operators, num_operators/4)), floored at 1 *)
Definition op_count (x : Q) : Z := let n := truncQ x in if (n <? 1)%Z then 1%Z else n.

(* the loop  for i in range(curr_num_ops)  with its variable prev_op (None / index of the previous
   operator); k = number of operators created so far *)
Fixpoint gen_ops (P : gparams) (n k : nat) (prev : option nat) (ds : list draw)
  : option (list gop * list draw) :=
  match n with
  | O => Some ([], ds)
  | S n' =>
      let parents := match prev with Some p => [p] | None => [] end in   (* [prev_op] if prev_op else None *)
      match prev with
      | None =>                                        (* generate_segment_from_val(-2) *)
          match gen_ops P n' (S k) (Some k) ds with
          | Some (t, ds') => Some ({| go_parents := parents; go_proto := proto_idx ((-2) # 1)%Q |} :: t, ds')
          | None => None
          end
      | Some _ =>                                      (* generate_segment_not_heavy_io() *)
          match ds with
          | DNormal mu x :: ds1 =>
              if Qeq_bool mu (g_ratio P) then
                match gen_ops P n' (S k) (Some k) ds1 with
                | Some (t, ds') => Some ({| go_parents := parents; go_proto := proto_idx (clip x) |} :: t, ds')
                | None => None
                end
              else None
          | _ => None
          end
      end
  end.

Definition query_value : Z := 1.   (* Priority.QUERY.value, bridge obligation gen_query_value *)

(* one iteration of the loop of generate_pipelines; cnt = pipeline_counter before *)
Definition gen_pipeline (P : gparams) (cnt : Z) (ds : list draw) : option (gpipe * list draw) :=
  match ds with
  | DChoice v :: ds1 =>
      let id := (cnt + 1)%Z in
      if (v =? query_value)%Z then
        Some ({| gp_id := id; gp_prio := v;
                 gp_ops := [ {| go_parents := []; go_proto := query_proto |} ] |}, ds1)
      else
        match ds1 with
        | DNormal mu x :: ds2 =>
            if Qeq_bool mu (g_nops P) then
              match gen_ops P (Z.to_nat (op_count x)) 0 None ds2 with
              | Some (ops, ds3) => Some ({| gp_id := id; gp_prio := v; gp_ops := ops |}, ds3)
              | None => None
              end
            else None
        | _ => None
        end
  | _ => None
  end.

(* for _ in range(self.num_pipelines) *)
Fixpoint gen_batch (P : gparams) (n : nat) (cnt : Z) (ds : list draw)
  : option (list gpipe * Z * list draw) :=
  match n with
  | O => Some ([], cnt, ds)
  | S n' =>
      match gen_pipeline P cnt ds with
      | Some (p, ds1) =>
          match gen_batch P n' (cnt + 1)%Z ds1 with
          | Some (t, cnt', ds2) => Some (p :: t, cnt', ds2)
          | None => None
          end
      | None => None
      end
  end.

Record gstate := {
  gs_since : Z;              (* ticks_since_last_gen *)
  gs_wait : Z;               (* curr_waiting_ticks *)
  gs_cnt : Z;                (* pipeline_counter *)
  gs_draws : list draw       (* what the rng will return from now on *)
}.
Definition gen_init (ds : list draw) : gstate :=
  {| gs_since := 0; gs_wait := 0; gs_cnt := 0; gs_draws := ds |}.

(* next_wait = int(rng.normal(mean, stdev));  if next_wait <= 0: next_wait = mean *)
Definition next_wait (wmean : Z) (x : Q) : Z :=
  let w := truncQ x in if (w <=? 0)%Z then wmean else w.

(* run_one_tick *)
Definition gen_tick (P : gparams) (s : gstate) : option (list gpipe * gstate) :=
  if (gs_since s =? gs_wait s)%Z then
    match gen_batch P (g_np P) (gs_cnt s) (gs_draws s) with
    | Some (ps, cnt, DNormal mu x :: ds) =>
        if Qeq_bool mu (inject_Z (g_wmean P)) then
          Some (ps, {| gs_since := 0; gs_wait := next_wait (g_wmean P) x; gs_cnt := cnt; gs_draws := ds |})
        else None
    | _ => None
    end
  else
    Some ([], {| gs_since := gs_since s + 1; gs_wait := gs_wait s; gs_cnt := gs_cnt s;
                 gs_draws := gs_draws s |}).

(* n calls of run_one_tick: what each returned *)
Fixpoint gen_run (P : gparams) (n : nat) (s : gstate) : option (list (list gpipe) * gstate) :=
  match n with
  | O => Some ([], s)
  | S n' =>
      match gen_tick P s with
      | Some (b, s1) =>
          match gen_run P n' s1 with
          | Some (t, s2) => Some (b :: t, s2)
          | None => None
          end
      | None => None
      end
  end.

(* ---- numpy's Generator.choice(a, p=probs) as the inverse CDF of a uniform u in [0,1):
        cdf = p.cumsum(); cdf /= cdf[-1]; idx = cdf.searchsorted(u, side='right')
        = the first index i with u < cdf_i  (the index [length probs] when there is none).
        This is the EXACT-arithmetic reading (used in the C15_choice_* theorems); what numpy computes in floats
        is choice_float below, tied to numpy by the kind-25 correspondence and to choice_of by
        ChoiceFloatFacts.choice_float_close_to_exact. ---- *)
Fixpoint choice_from (probs : list Q) (acc u : Q) (i : nat) : nat :=
  match probs with
  | [] => i
  | p :: t => if Qltb u (acc + p)%Q then i else choice_from t (acc + p)%Q u (S i)
  end.
Definition choice_of (probs : list Q) (u : Q) : nat := choice_from probs 0%Q u 0.

Fixpoint sumQl (l : list Q) : Q := match l with [] => 0%Q | x :: t => (x + sumQl t)%Q end.
Definition cdf (probs : list Q) (i : nat) : Q := sumQl (firstn i probs).

(* ---- the same call AS numpy (2.x, Generator.choice with replace=True, size=None, p given) COMPUTES it in
        binary64, from the ONE double  u = self.random()  it draws from the bit generator:
            cdf = p.cumsum()                       running float sum, one rounding per addition
            cdf /= cdf[-1]                         every entry divided by the (old) last one, rounded
            idx = cdf.searchsorted(u, side='right')  = number of entries <= u = first i with u < cdf_i
            return a[idx]
        Established by experiment (603600 draws over 3018 probability triples: same index, same float cdf, and
        the generator state after choice == the state of a clone after one random()) and CHECKED on every
        draw of every case of stream G-gen-u (kind 25): the harness predicts u from a clone of the bit
        generator, the model computes the priority from u, the real generator's priorities are the obs.
        cumsum copies its first entry; [fadd 0 p] is that copy when p is a double (rnd64 is idempotent). ---- *)
Fixpoint fcumsum (acc : Q) (l : list Q) : list Q :=
  match l with
  | [] => []
  | p :: t => let a := fadd acc p in a :: fcumsum a t
  end.

Definition float_cdf (probs : list Q) : list Q :=
  let c := fcumsum 0%Q probs in
  let tot := last c 0%Q in
  map (fun x => fdiv x tot) c.

Fixpoint search_right (c : list Q) (u : Q) (i : nat) : nat :=
  match c with
  | [] => i
  | x :: t => if Qltb u x then i else search_right t u (S i)
  end.

Definition choice_float (probs : list Q) (u : Q) : nat := search_right (float_cdf probs) u 0.

(* numpy's searchsorted is a binary search (npy_binsearch, side = right): on a sorted array it returns the same
   index as the linear scan above (ChoiceFloatFacts.bsearch_right_linear; float_cdf is sorted for p >= 0) *)
Fixpoint bsearch_right (fuel : nat) (c : list Q) (u : Q) (lo hi : nat) : nat :=
  match fuel with
  | O => lo
  | S f =>
      if (lo <? hi)%nat then
        let mid := (lo + (hi - lo) / 2)%nat in
        if Qltb u (nth mid c 0%Q) then bsearch_right f c u lo mid else bsearch_right f c u (S mid) hi
      else lo
  end.

(* __init__:  prob_array = np.array([interactive_prob, query_prob, batch_prob])
              self.priority_probs = prob_array / np.sum(prob_array, dtype=float)
   np.sum of three doubles is the left-to-right float sum (a0 + a1) + a2 (experiment: 459 triples on which the
   two association orders differ); then one rounded division per entry *)
Definition fsum (l : list Q) : Q := fold_left fadd l 0%Q.
Definition prio_probs (user : list Q) : list Q := let s := fsum user in map (fun p => fdiv p s) user.

(* self.priority_values *)
Definition priority_values : list Z := [prio_val Interactive; prio_val Query; prio_val Batch].

(* the generator as a function of the UNIFORM doubles behind its class draws: a stream entry is either the u that
   self.random() returns inside choice, or a normal draw as before; the class is COMPUTED *)
Inductive udraw :=
| UUniform (u : Q)           (* the double the bit generator hands to choice *)
| UNormal (mu x : Q).

Definition resolve_draw (pp : list Q) (d : udraw) : option draw :=
  match d with
  | UNormal mu x => Some (DNormal mu x)
  | UUniform u =>
      match nth_error priority_values (choice_float pp u) with
      | Some v => Some (DChoice v)
      | None => None                    (* a[idx] with idx = len(a): IndexError (never for u < 1) *)
      end
  end.

Fixpoint resolve (pp : list Q) (ds : list udraw) : option (list draw) :=
  match ds with
  | [] => Some []
  | d :: t =>
      match resolve_draw pp d, resolve pp t with
      | Some x, Some r => Some (x :: r)
      | _, _ => None
      end
  end.

(* n calls of run_one_tick of WorkloadGenerator(interactive_prob, query_prob, batch_prob = user, ...) *)
Definition gen_run_u (P : gparams) (user : list Q) (n : nat) (ds : list udraw)
  : option (list (list gpipe) * gstate) :=
  match resolve (prio_probs user) ds with
  | Some dl => gen_run P n (gen_init dl)
  | None => None
  end.

(* The source statements this file was transcribed from, as harness/extract_c15.py normalises them (docstrings,
   comments and logger calls dropped; one leading dot per indentation level); bridge obligation gen_source
   compares with /repo on every run. *)
Definition generator_source : list string :=
  [ "def generate_pipelines(self):"%string;
    ".pipelines = []"%string;
    ".for _ in range(self.num_pipelines):"%string;
    "..priority = self.rng.choice(a=self.priority_values, p=self.priority_probs)"%string;
    "..self.pipeline_counter += 1"%string;
    "..pipeline_id = f'p{self.pipeline_counter}'"%string;
    "..p = Pipeline(pipeline_id, Priority(priority))"%string;
    "..if priority == Priority.QUERY.value:"%string;
    "...op = p.new_operator()"%string;
    "...seg = self.generate_query_segment()"%string;
    "...op.add_segment(seg)"%string;
    "..else:"%string;
    "...curr_num_ops = int(self.rng.normal(self.num_operators, self.num_operators / 4))"%string;
    "...if curr_num_ops < 1:"%string;
    "....curr_num_ops = 1"%string;
    "...prev_op = None"%string;
    "...for i in range(curr_num_ops):"%string;
    "....op = p.new_operator([prev_op] if prev_op else None)"%string;
    "....curr_num_segs = 1"%string;
    "....prev_seg = None"%string;
    "....for j in range(curr_num_segs):"%string;
    ".....if prev_op is None:"%string;
    "......seg = self.generate_segment_from_val(-2)"%string;
    "......op.add_segment(seg)"%string;
    ".....else:"%string;
    "......seg = self.generate_segment_not_heavy_io()"%string;
    "......op.add_segment(seg)"%string;
    ".....prev_seg = seg"%string;
    "....prev_op = op"%string;
    "..pipelines.append(p)"%string;
    ".return pipelines"%string;
    "def run_one_tick(self):"%string;
    ".if self.ticks_since_last_gen == self.curr_waiting_ticks:"%string;
    "..pipelines = self.generate_pipelines()"%string;
    "..next_wait = int(self.rng.normal(self.waiting_ticks_mean, self.waiting_ticks_stdev))"%string;
    "..if next_wait <= 0:"%string;
    "...next_wait = self.waiting_ticks_mean"%string;
    "..self.curr_waiting_ticks = next_wait"%string;
    "..self.ticks_since_last_gen = 0"%string;
    "..return pipelines"%string;
    ".else:"%string;
    "..self.ticks_since_last_gen += 1"%string;
    "..return []"%string;
    "def generate_segment_not_heavy_io(self):"%string;
    ".val = self.rng.normal(self.cpu_io_ratio)"%string;
    ".if val < -1:"%string;
    "..val = -1"%string;
    ".return self.generate_segment_from_val(val)"%string;
    "def __init__:"%string;
    ".assert cpu_io_ratio <= 1.0 and cpu_io_ratio >= 0, 'invalid CPU-IO ratio parameter'"%string;
    ".self.ticks_since_last_gen = 0"%string;
    ".self.waiting_ticks_mean = int(waiting_seconds_mean * ticks_per_second)"%string;
    ".self.waiting_ticks_stdev = self.waiting_ticks_mean / 4"%string;
    ".self.curr_waiting_ticks = 0"%string;
    ".self.rng = np.random.default_rng(random_seed)"%string;
    ".self.priority_values = [Priority.INTERACTIVE.value, Priority.QUERY.value, Priority.BATCH_PIPELINE.value]"%string;
    ".prob_array = np.array([interactive_prob, query_prob, batch_prob])"%string;
    ".self.priority_probs = prob_array / np.sum(prob_array, dtype=float)"%string;
    ".self.num_pipelines = num_pipelines"%string;
    ".self.num_operators = num_operators"%string;
    ".self.cpu_io_ratio = cpu_io_ratio"%string;
    ".self.pipeline_counter = 0"%string ].
