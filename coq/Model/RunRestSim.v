(* Case runner for whole REST-driven simulations (kind 39): the loop of Model/SimGen.v with the REST
   scheduler of Model/RestSim.v ([rest_gstep]) and, as the server behind /schedule, the policy that
   answers the i-th request with the i-th RECORDED reply of an HTTP run of the implementation.

   WIRE LAYOUT (all integers; Q = numerator, positive denominator; L x = length followed by the items;
   O x = 0 | 1 x; B = 0 / 1)

   input
     tps  over:B  multi:B  npools  cpus_per_pool  ram_per_pool:Q            (as kind 5 / kind 3)
     nticks                                (number of simulator ticks to run: ticks 0 .. nticks-1)
     poll:Q                                (rest_poll_interval)
     L pipeline    pipeline = priority(1/2/3) L(L parent)      (DAG by insertion index, as kind 5; pipeline
                                            k = k-th arrival of the run, operators numbered globally by
                                            pipeline and insertion index)
     L script      script = L Q            (per-tick memory demand, probed from the real Container)
     L entry       entry = operator cpus script-index          (as kind 5: [dscripts])
     L arrival     arrival = tick pipeline                     (simulator tick, 0-based)
     L reply       reply = L suspension  L assignment          (Rest.v wire form: [decode_reply])
                   suspension = container pool                 (container = number counted from the
                                                                value of Container.next_container_num at
                                                                the start of the run)
                   assignment = L operator  cpu:Q  ram:Q  priority(1/2/3; other: no such name)  pool
                                is_resume:B  force_run:B
   answer, per simulator tick
     0                                     rest_scheduler returned early (no request), or
     1 request                             the digest of the request body built by [view_of]:
         request   = tick  sim_time:Q  L result  L pipe (new_pipelines)  L pipe (other_pipelines)  L pool
         result    = container  L operator  cpu  ram:Q  priority  pool  error:B
         pipe      = pipeline  priority  O arrival_tick  is_complete:B  has_failures:B  L op
         op        = operator  state(0..5)  is_assignable_state:B  parents_complete:B
         pool      = pool_id  max_cpu  max_ram:Q  avail_cpu  avail_ram:Q  consumed_ram:Q
                     L cont (active)  L cont (suspending)  L cont (suspended)
         cont      = container  pipeline-tag(-1 no_pipeline, -2 multiple_pipelines, else the pipeline)
                     L operator  cpu  ram:Q  current_memory:Q  priority
     then
     e                                     error code (Types.err_code) if the tick raised: end of answer, or
     0  L susp  L asg  L result            what the executor was handed and what it returned
         susp      = container pool
         asg       = L operator  cpu  ram:Q  priority  pool
   [-1] on malformed input.

   Between ticks every rational of the state is put into lowest terms ([norm_gsim], as kind 5 does:
   see Model/RunSim.v); every use of them is ==-invariant, and the request digest prints reduced
   fractions anyway. Definitions only. *)
From Coq Require Import ZArith QArith List Bool Arith.
Import ListNotations.
Close Scope Q_scope.
From Eudoxia Require Import Num.Rnd64 Model.Types Model.Dag Model.Lifecycle Model.Container Model.Pool
  Model.Executor Model.Sched Model.Simulator Model.SimGen Model.Rest Model.RestSim Model.Codec
  Model.RunExec Model.RunSim.

(* ---- the recorded server ---- *)

(* answers the i-th call with the i-th recorded reply; afterwards with the empty reply *)
Definition empty_reply : reply := {| rp_susp := []; rp_asg := [] |}.
Definition replay_policy : policy (list reply) :=
  fun ps _ => match ps with [] => (empty_reply, []) | r :: t => (r, t) end.

(* a reply in the wire form of Model/Rest.v *)
Definition dreply : dec reply :=
  dlet ss <- wlist wsusp; dlet aa <- wlist wasg; dret {| rp_susp := ss; rp_asg := aa |}.

(* ---- the digest of a request body ---- *)

Definition eZ1 (z : Z) : list Z := [z].

Definition dump_rview (r : result_view) : list Z :=
  [rv_cid r] ++ eL eZ1 (rv_ops r) ++ [rv_cpu r] ++ eQ (rv_ram r) ++ [prio_val (rv_prio r); rv_pool r]
  ++ eB (rv_err r).

Definition dump_oview (o : op_view) : list Z :=
  [ov_id o] ++ eost (ov_state o) ++ eB (ov_assignable o) ++ eB (ov_parents_complete o).

Definition dump_pview (p : pipe_view) : list Z :=
  [pv_id p; prio_val (pv_prio p)] ++ eO eZ1 (pv_arrival p) ++ eB (pv_complete p) ++ eB (pv_failures p)
  ++ eL dump_oview (pv_ops p).

Definition pid_tag (v : pid_view) : Z :=
  match v with PidNone => (-1)%Z | PidMultiple => (-2)%Z | PidOne k => k end.

Definition dump_cview (c : cont_view) : list Z :=
  [cv_id c; pid_tag (cv_pipeline c)] ++ eL eZ1 (cv_ops c) ++ [cv_cpu c] ++ eQ (cv_ram c) ++ eQ (cv_mem c)
  ++ [prio_val (cv_prio c)].

Definition dump_poolview (p : pool_view) : list Z :=
  [pov_id p; pov_max_cpu p] ++ eQ (pov_max_ram p) ++ [pov_avail_cpu p] ++ eQ (pov_avail_ram p)
  ++ eQ (pov_consumed p)
  ++ eL dump_cview (pov_active p) ++ eL dump_cview (pov_suspending p) ++ eL dump_cview (pov_suspended p).

Definition dump_request (p : payload_full) : list Z :=
  [pf_tick p] ++ eQ (pf_time p) ++ eL dump_rview (pf_results p) ++ eL dump_pview (pf_new p)
  ++ eL dump_pview (pf_other p) ++ eL dump_poolview (pf_pools p).

(* ---- the run ---- *)

Definition norm_gsim {SS} (s : gsim SS) : gsim SS :=
  {| gm_exec := {| e_world := e_world (gm_exec s); e_pools := map norm_pool (e_pools (gm_exec s));
                   e_next := e_next (gm_exec s) |};
     gm_sched := gm_sched s; gm_results := map norm_result (gm_results s);
     gm_outstanding := gm_outstanding s; gm_arrival := gm_arrival s; gm_lat := gm_lat s;
     gm_created := gm_created s; gm_nasg := gm_nasg s; gm_nsusp := gm_nsusp s; gm_nfail := gm_nfail s |}.

Definition dump_decisions (lg : tick_log) : list Z :=
  eL dump_susp (tl_susp lg) ++ eL dump_asg (tl_asgs lg) ++ eL dump_result (tl_results lg).

(* [gsim_run C (rest_gstep C poll replay_policy)] tick by tick ([gsim_tick]), printing before each tick
   the request this invocation of rest_scheduler sends ([rest_request]: [view_of] on the state the tick
   starts from) and after it what the tick log says *)
Fixpoint restsim_dump (C : cfg) (poll : Q) (tick : Z) (s : gsim (rxs (list reply)))
         (arrivals : list (list nat)) : list Z :=
  match arrivals with
  | [] => []
  | newp :: t =>
      (match rest_request C poll (gm_sched s) (gm_exec s) (gm_results s) newp tick with
       | None => [0%Z]
       | Some p => 1%Z :: dump_request p
       end)
      ++ match gsim_tick C (rest_gstep C poll replay_policy) tick s newp with
         | Err e => [err_code e]
         | Ok (s', lg) => 0%Z :: dump_decisions lg ++ restsim_dump C poll (tick + 1)%Z (norm_gsim s') t
         end
  end.

Definition run_restsim (l : list Z) : list Z :=
  match run_dec (dlet tps <- dZ; dlet over <- dbool; dlet multi <- dbool; dlet np <- dnat;
                 dlet cpu <- dZ; dlet ram <- dQ; dlet nticks <- dnat; dlet poll <- dQ;
                 dlet pipes <- dlist (dpair dprio ddag); dlet scripts <- dscripts;
                 dlet arr <- dlist (dpair dZ dnat); dlet replies <- dlist dreply;
                 dret (tps, over, multi, np, cpu, ram, nticks, poll, pipes, scripts, arr, replies)) l with
  | Some (tps, over, multi, np, cpu, ram, nticks, poll, pipes, scripts, arr, replies) =>
      if forallb (fun pg => wf_dagb (snd pg)) pipes && (0 <? tps)%Z
         && forallb (fun x => Nat.ltb (snd x) (length pipes)) arr then
        let C := {| cf_static := mk_static pipes; cf_script := lookup_script scripts; cf_tps := tps;
                    cf_overcommit := over; cf_multi := multi; cf_rnd := rnd64 |} in
        restsim_dump C poll 0%Z (ginit C np cpu ram (rx_init replies)) (batches nticks 0%Z arr)
      else bad_input
  | None => bad_input
  end.
