(* PipelineRuntimeStatus (eudoxia/workload/runtime_status.py) over a global operator numbering.
   Definitions only. *)
From Coq Require Import ZArith List Bool Arith.
Import ListNotations.
From Eudoxia Require Import Model.Types Model.Dag Model.Shapes.

(* VALID_TRANSITIONS, in the dict's order. Tied to the source by Bridge.v. *)
Definition valid_table : list (ostate * list ostate) :=
  [ (Pending,    [Assigned]);
    (Assigned,   [Running; Suspending; Failed]);
    (Running,    [Completed; Failed]);
    (Suspending, [Pending]);
    (Completed,  []);
    (Failed,     [Assigned]) ].

Fixpoint assoc_ost (a : ostate) (t : list (ostate * list ostate)) : list ostate :=
  match t with
  | [] => []
  | (k, v) :: t' => if ostate_eqb k a then v else assoc_ost a t'
  end.

Definition valid (a b : ostate) : bool := existsb (ostate_eqb b) (assoc_ost a valid_table).

(* ASSIGNABLE_STATES = states with ASSIGNED among their successors *)
Definition assignable (a : ostate) : bool := valid a Assigned.

(* Static description of the pipelines of a run. Operators carry global ids: pipeline k's operator
   with insertion index i has id [pd_first k + i]. *)
Record opdef := { od_pipe : nat; od_parents : list nat (* global ids *) }.
Record pdef := {
  pd_prio : prio;
  pd_first : nat;
  pd_dag : dag;               (* local insertion indices *)
  pd_order : list nat         (* global ids in the order of operator_states = list(pipeline.values) *)
}.
Record static := { s_ops : list opdef; s_pipes : list pdef }.

Definition pd_n (p : pdef) : nat := length (pd_dag p).

Definition mk_pdef (first : nat) (pr : prio) (g : dag) : pdef :=
  {| pd_prio := pr; pd_first := first; pd_dag := g;
     pd_order := map (fun i => first + i) (iterate g) |}.

Fixpoint mk_pipes (first : nat) (l : list (prio * dag)) : list pdef :=
  match l with
  | [] => []
  | (pr, g) :: t => mk_pdef first pr g :: mk_pipes (first + length g) t
  end.

Definition opdefs_of (k : nat) (p : pdef) : list opdef :=
  map (fun ps => {| od_pipe := k; od_parents := map (fun i => pd_first p + i) ps |}) (pd_dag p).

Fixpoint mk_ops (k : nat) (ps : list pdef) : list opdef :=
  match ps with [] => [] | p :: t => opdefs_of k p ++ mk_ops (S k) t end.

Definition mk_static (l : list (prio * dag)) : static :=
  let ps := mk_pipes 0 l in {| s_ops := mk_ops 0 ps; s_pipes := ps |}.

Definition dummy_op : opdef := {| od_pipe := 0; od_parents := [] |}.
Definition dummy_pipe : pdef := {| pd_prio := Batch; pd_first := 0; pd_dag := []; pd_order := [] |}.
Definition op_parents (S : static) (op : nat) : list nat := od_parents (nth op (s_ops S) dummy_op).
Definition op_pipe (S : static) (op : nat) : nat := od_pipe (nth op (s_ops S) dummy_op).
Definition pipe_of (S : static) (k : nat) : pdef := nth k (s_pipes S) dummy_pipe.

(* Mutable part: operator_states (global) and state_counts (per pipeline, six cells). The code keeps
   the two separately, so does the model. *)
Record world := { w_st : list ostate; w_cnt : list (list Z) }.

Definition st_of (w : world) (op : nat) : ostate := nth op (w_st w) Pending.
Definition cnt_of (w : world) (k : nat) (a : ostate) : Z := nth (ost_idx a) (nth k (w_cnt w) []) 0%Z.

Definition init_counts (p : pdef) : list Z :=
  [Z.of_nat (length (pd_order p)); 0; 0; 0; 0; 0]%Z.
Definition init_world (S : static) : world :=
  {| w_st := repeat Pending (length (s_ops S)); w_cnt := map init_counts (s_pipes S) |}.

Definition parents_complete (S : static) (w : world) (op : nat) : bool :=
  forallb (fun p => ostate_eqb (st_of w p) Completed) (op_parents S op).

(* check_transition, as an interpreter of the statement list the extractor reads from the source *)
Definition check_prog : list ck_step := [CkTable; CkParents Running Completed; CkAccept].
Definition transition_prog : list tr_step := [TrCheck; TrAssert; TrReadOld; TrDecOld; TrIncNew; TrSet].

Fixpoint run_ck (S : static) (w : world) (op : nat) (new : ostate) (prog : list ck_step) : res unit :=
  match prog with
  | [] => Err EOther
  | CkTable :: t =>
      if negb (valid (st_of w op) new) then Err ETransition else run_ck S w op new t
  | CkParents when need :: t =>
      if ostate_eqb new when
         && negb (forallb (fun p => ostate_eqb (st_of w p) need) (op_parents S op))
      then Err EDep else run_ck S w op new t
  | CkAccept :: _ => Ok tt
  end.

Definition check_transition (S : static) (w : world) (op : nat) (new : ostate) : res unit :=
  run_ck S w op new check_prog.

Definition bump (c : list Z) (a : ostate) (d : Z) : list Z :=
  set_nth c (ost_idx a) (nth (ost_idx a) c 0 + d)%Z.

Definition transition (S : static) (w : world) (op : nat) (new : ostate) : res world :=
  do _ <- check_transition S w op new;
  let old := st_of w op in
  let k := op_pipe S op in
  let c := bump (bump (nth k (w_cnt w) []) old (-1)) new 1 in
  Ok {| w_st := set_nth (w_st w) op new; w_cnt := set_nth (w_cnt w) k c |}.

(* a list of operators, one after the other; stops at the first refusal *)
Fixpoint transition_all (S : static) (w : world) (ops : list nat) (new : ostate) : res world :=
  match ops with
  | [] => Ok w
  | op :: t => do w' <- transition S w op new; transition_all S w' t new
  end.

Definition is_successful (S : static) (w : world) (k : nat) : bool :=
  (cnt_of w k Completed =? Z.of_nat (length (pd_order (pipe_of S k))))%Z.
Definition has_failures (w : world) (k : nat) : bool := (0 <? cnt_of w k Failed)%Z.

(* get_ops(states, require_parents_complete), in the order of operator_states *)
Definition get_ops (S : static) (w : world) (k : nat) (allowed : ostate -> bool) (req : bool) : list nat :=
  filter (fun op => allowed (st_of w op) && (negb req || parents_complete S w op))
         (pd_order (pipe_of S k)).
