#!/bin/bash
# tools/harmless_table.sh: tries every behaviour-preserving refactoring under /verif/harmless against all 20 quick checks
# (scratch worktree + scratch copy of /verif, four areas in parallel) and rewrites harmless/<area>/result.txt.
cd /verif
for a in executor scheduler workload simtools; do
  ( tools/scratch_seed.sh harmless/$a/patch.diff hl_$a C01 C02 C03 C04 C05 C06 C07 C08 C09 C10 C11 C12 C13 C14 C15 C16 C17 C18 C19 C20 2>&1 \
      | grep -v "^WARN" > /tmp/harmless_$a.txt; cp /tmp/harmless_$a.txt harmless/$a/result.txt ) &
done
wait
grep -c "rc=1" harmless/*/result.txt
grep "rc=1" harmless/*/result.txt | grep -v "no-failing-input-found"
