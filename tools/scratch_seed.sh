#!/bin/bash
# tools/scratch_seed.sh <patch.diff> <tag> <id> [<id> ...]
# Development aid: tries a seeded change WITHOUT touching /repo or /verif/evidence. Makes a scratch git worktree
# of /repo (/tmp/sr_<tag>) with the patch applied and a scratch copy of /verif (/tmp/sv_<tag>), runs the quick
# check of each id there (VERIF_ROOT / VERIF_REPO), prints one summary line per check, removes both.
# Confirmation runs against /repo itself are done by tools/accept_seed.py / tools/seed_table.py.
patch=$(readlink -f "$1"); tag=$2; shift 2
sr=/tmp/sr_$tag; sv=/tmp/sv_$tag
git -C /repo worktree remove --force "$sr" 2>/dev/null; rm -rf "$sr" "$sv"
git -C /repo worktree add --detach "$sr" HEAD >/dev/null 2>&1 || { echo "cannot create worktree"; exit 2; }
git -C "$sr" apply "$patch" || { echo "patch does not apply"; git -C /repo worktree remove --force "$sr"; exit 2; }
mkdir -p "$sv"; rsync -a --exclude .git --exclude evidence /verif/ "$sv"/; mkdir -p "$sv/evidence"
export VERIF_ROOT=$sv VERIF_REPO=$sr
for id in "$@"; do
  start=$(date +%s)
  out=$(cd "$sv" && ./check "$id" ${TIER:-quick} 2>&1); rc=$?
  echo "$tag $id rc=$rc $(( $(date +%s) - start ))s | $(echo "$out" | grep '^VIOLATION' | head -1)"
  echo "$out" | grep -A3 '^VIOLATION' | grep -v '^VIOLATION' | head -4 | sed 's/^/      /' | cut -c1-260
  [ -n "$KEEPLOG" ] && echo "$out" > "/tmp/scratch_${tag}_$id.log"
done
git -C /repo worktree remove --force "$sr"; rm -rf "$sv"
