#!/venv/bin/python
"""tools/accept_seed.py <Cxx> [name] [extra checks...]: verifies a seeded change produced in /tmp/seed_<Cxx>
(tests pass with it, demo fails with it and passes without it), runs our check(s) against it on /repo
(applied, then undone), and stores it under /verif/seeded/<name>/ with meta.json."""
import json
import os
import shutil
import subprocess
import sys

pid = sys.argv[1]
name = sys.argv[2] if len(sys.argv) > 2 else pid
checks = [pid] + sys.argv[3:]
wt = f'/tmp/seed_{pid}'
env = dict(os.environ, PYTHONPATH=wt)


def sh(cmd, cwd=None, env=None, timeout=1800):
    p = subprocess.run(cmd, shell=True, cwd=cwd, env=env, stdout=subprocess.PIPE, stderr=subprocess.STDOUT, text=True,
                       timeout=timeout)
    return p.returncode, p.stdout


patch = subprocess.run('git diff -- eudoxia', shell=True, cwd=wt, capture_output=True, text=True).stdout
assert patch.strip(), 'no source change in the worktree'
open(f'{wt}/seed.patch', 'w').write(patch)
rc_t, out_t = sh('/venv/bin/python -m pytest -q -p no:cacheprovider -x 2>&1 | tail -1', cwd=wt, env=env)
rc_with, out_with = sh('/venv/bin/python demo.py', cwd=wt, env=env)
sh('git apply -R seed.patch', cwd=wt)
rc_without, out_without = sh('/venv/bin/python demo.py', cwd=wt, env=env)
sh('git apply seed.patch', cwd=wt)
print('tests:', out_t.strip())
print('demo with change rc=', rc_with, '| without rc=', rc_without)
ok = 'passed' in out_t and 'failed' not in out_t and rc_with != 0 and rc_without == 0
results = {}


def collect(c, rc, out):
    lines = [l for l in out.splitlines() if l.startswith(('VIOLATION', 'KNOWN', '  ')) or 'quick:' in l]
    results[c] = dict(exit=rc, output=lines[:8])
    print(f'== check {c}: exit {rc}')
    for l in lines[:6]:
        print('   ', l[:260])


if os.environ.get('SCRATCH'):
    # scratch route: a worktree of /repo with the patch and a copy of /verif; /repo and /verif/evidence untouched
    sr, sv = f'/tmp/sr_{name}', f'/tmp/sv_{name}'
    sh(f'git -C /repo worktree remove --force {sr}; rm -rf {sr} {sv}')
    rc, out = sh(f'git -C /repo worktree add --detach {sr} HEAD && git -C {sr} apply {wt}/seed.patch')
    assert rc == 0, out
    sh(f'mkdir -p {sv} && rsync -a --exclude .git --exclude evidence /verif/ {sv}/ && mkdir -p {sv}/evidence')
    try:
        for c in checks:
            rc, out = sh(f'./check {c} quick', cwd=sv, env=dict(os.environ, VERIF_ROOT=sv, VERIF_REPO=sr))
            collect(c, rc, out.replace(sv, '/verif'))
    finally:
        sh(f'git -C /repo worktree remove --force {sr}; rm -rf {sr} {sv}')
    how_run = f'scratch worktree of /repo with the patch (VERIF_REPO) + copy of /verif (VERIF_ROOT); ./check <id> quick'
else:
    assert subprocess.run('git -C /repo diff --quiet', shell=True).returncode == 0, '/repo dirty'
    shutil.rmtree('/tmp/evidence_backup', ignore_errors=True)
    shutil.copytree('/verif/evidence', '/tmp/evidence_backup')
    try:
        rc, out = sh(f'git -C /repo apply {wt}/seed.patch')
        assert rc == 0, out
        for c in checks:
            rc, out = sh(f'./check {c} quick', cwd='/verif')
            collect(c, rc, out)
    finally:
        sh('git -C /repo checkout -- .')
        shutil.rmtree('/verif/evidence', ignore_errors=True)
        shutil.move('/tmp/evidence_backup', '/verif/evidence')
    how_run = 'git -C /repo apply patch; ./check <id> quick; git -C /repo checkout -- .'
d = f'/verif/seeded/{name}'
os.makedirs(d, exist_ok=True)
shutil.copy(f'{wt}/seed.patch', f'{d}/patch.diff')
shutil.copy(f'{wt}/demo.py', f'{d}/demo.py')
notes = open(f'{wt}/notes.md').read() if os.path.exists(f'{wt}/notes.md') else ''
json.dump(dict(property=pid, name=name, confirmed=ok, tests_with_change=out_t.strip(),
               demo_with_change=dict(exit=rc_with, tail=out_with.strip().splitlines()[-6:]),
               demo_without_change=dict(exit=rc_without, tail=out_without.strip().splitlines()[-3:]),
               needs_to_manifest=notes, what_was_run=[f'cd {wt} && PYTHONPATH={wt} pytest (51 tests)', 'demo.py with / without',
                                                      how_run],
               checks=results, detected={c: r['exit'] == 1 for c, r in results.items()}),
          open(f'{d}/meta.json', 'w'), indent=1)
print('confirmed:', ok, 'detected:', {c: r['exit'] == 1 for c, r in results.items()})
