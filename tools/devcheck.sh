#!/bin/bash
# tools/devcheck.sh <tag> <id> [tier]: run a check from a scratch copy of /verif (so that it cannot race with
# another check on build/ or evidence/), against VERIF_REPO (default /repo). Development aid only.
tag=$1; id=$2; tier=${3:-quick}
sv=/tmp/sv_$tag
mkdir -p "$sv"; rsync -a --delete --exclude .git --exclude evidence --exclude replays /verif/ "$sv"/; mkdir -p "$sv/evidence"
cd "$sv" && VERIF_ROOT=$sv ./check "$id" "$tier" 2>&1 | grep -v "^WARNING"
