#!/venv/bin/python
"""tools/seed_table.py [names...]: re-runs every seeded change under /verif/seeded against the quick check of its
property (and the extra checks recorded in its meta.json) and writes the table of DESIGN.md section 13.7 to
/verif/seeded/TABLE.md; meta.json['final'] is refreshed. Each change is tried in a scratch git worktree of /repo
with the patch applied and a scratch copy of /verif (VERIF_REPO / VERIF_ROOT), four at a time; /repo and
/verif/evidence are not touched. (tools/accept_seed.py without SCRATCH=1 does the same against /repo itself.)"""
import glob
import json
import os
import subprocess
import sys
from concurrent.futures import ThreadPoolExecutor


def sh(cmd, cwd=None, env=None, timeout=3600):
    p = subprocess.run(cmd, shell=True, cwd=cwd, env=env, stdout=subprocess.PIPE, stderr=subprocess.STDOUT, text=True,
                       timeout=timeout)
    return p.returncode, p.stdout


def one(d):
    name = os.path.basename(d)
    meta = json.load(open(d + '/meta.json'))
    checks = list(meta.get('checks', {}).keys()) or [meta['property']]
    if meta['property'] not in checks:
        checks.insert(0, meta['property'])
    sr, sv = f'/tmp/sr_t_{name}', f'/tmp/sv_t_{name}'
    sh(f'git -C /repo worktree remove --force {sr}; rm -rf {sr} {sv}')
    rc, out = sh(f'git -C /repo worktree add --detach {sr} HEAD && git -C {sr} apply {d}/patch.diff')
    if rc != 0:
        sh(f'git -C /repo worktree remove --force {sr}')
        return (name, meta['property'], 'patch does not apply', '')
    sh(f'mkdir -p {sv} && rsync -a --exclude .git --exclude evidence --exclude replays /verif/ {sv}/ && mkdir -p {sv}/evidence')
    final = {}
    try:
        for c in checks:
            rc, out = sh(f'./check {c} quick', cwd=sv, env=dict(os.environ, VERIF_ROOT=sv, VERIF_REPO=sr))
            lines = [l.strip() for l in out.splitlines() if l.startswith('VIOLATION')]
            how = 'missed'
            if rc == 1 and lines:
                how = 'no-failing-input-found' if 'no-failing-input-found' in lines[0] else 'failing input'
            i = next((k for k, l in enumerate(out.splitlines()) if l.startswith('VIOLATION')), None)
            desc = out.splitlines()[i + 1].strip() if i is not None and i + 1 < len(out.splitlines()) else ''
            failed = [l.strip() for l in out.splitlines() if 'failed obligation' in l]
            final[c] = dict(exit=rc, how=how, first=(desc or '; '.join(failed))[:220].replace(sv, '/verif'))
    finally:
        sh(f'git -C /repo worktree remove --force {sr}; rm -rf {sr} {sv}')
    meta['final'] = final
    json.dump(meta, open(d + '/meta.json', 'w'), indent=1)
    own = final.get(meta['property'], {})
    others = '; '.join(f'{c}: {v["how"]}' for c, v in final.items() if c != meta['property'])
    row = (name, meta['property'], own.get('how', '?'), own.get('first', ''), others)
    print(row, flush=True)
    return row


only = sys.argv[1:]
dirs = [d for d in sorted(glob.glob('/verif/seeded/*')) if os.path.isdir(d) and (not only or os.path.basename(d) in only)]
with ThreadPoolExecutor(4) as ex:
    rows = list(ex.map(one, dirs))
lines = ['| seeded change | property | its own check | first report | other checks tried |', '|---|---|---|---|---|']
for r in rows:
    lines.append('| ' + ' | '.join(str(x).replace('|', '/') for x in r) + ' |')
if not only:
    open('/verif/seeded/TABLE.md', 'w').write('\n'.join(lines) + '\n')
else:
    # partial run: merge the new rows into the existing table (sorted by name)
    old = {}
    try:
        for ln in open('/verif/seeded/TABLE.md').read().splitlines()[2:]:
            old[ln.split('|')[1].strip()] = ln
    except FileNotFoundError:
        pass
    for ln in lines[2:]:
        old[ln.split('|')[1].strip()] = ln
    open('/verif/seeded/TABLE.md', 'w').write('\n'.join(lines[:2] + [old[k] for k in sorted(old)]) + '\n')
print('\n'.join(lines))
