#!/venv/bin/python
"""tools/seed_table.py: re-runs every seeded change under /verif/seeded against the check of its property (and
the extra checks recorded in its meta.json), one at a time on /repo (applied, then undone), preserves the
evidence directory, updates meta.json['final'] and prints a markdown table for DESIGN.md."""
import glob
import json
import os
import shutil
import subprocess
import sys


def sh(cmd, cwd=None, timeout=3600):
    p = subprocess.run(cmd, shell=True, cwd=cwd, stdout=subprocess.PIPE, stderr=subprocess.STDOUT, text=True, timeout=timeout)
    return p.returncode, p.stdout


only = sys.argv[1:]
rows = []
assert subprocess.run('git -C /repo diff --quiet', shell=True).returncode == 0, '/repo dirty'
shutil.rmtree('/tmp/evidence_backup', ignore_errors=True)
shutil.copytree('/verif/evidence', '/tmp/evidence_backup')
try:
    for d in sorted(glob.glob('/verif/seeded/*')):
        name = os.path.basename(d)
        if only and name not in only:
            continue
        meta = json.load(open(d + '/meta.json'))
        checks = list(meta.get('checks', {}).keys()) or [meta['property']]
        rc, out = sh(f'git -C /repo apply {d}/patch.diff')
        if rc != 0:
            rows.append((name, meta['property'], 'patch does not apply', ''))
            continue
        final = {}
        try:
            for c in checks:
                rc, out = sh(f'./check {c} quick', cwd='/verif')
                lines = [l.strip() for l in out.splitlines() if l.startswith('VIOLATION')]
                how = 'missed'
                if rc == 1 and lines:
                    how = 'correspondence/bridge only (no-failing-input-found)' if 'no-failing-input-found' in lines[0] \
                        else 'failing input found by the monitor'
                desc = next((l.strip() for l in out.splitlines() if l.startswith('  ') and 'failed obligation' not in l), '')
                final[c] = dict(exit=rc, how=how, first=desc[:200])
        finally:
            sh('git -C /repo checkout -- .')
        meta['final'] = final
        json.dump(meta, open(d + '/meta.json', 'w'), indent=1)
        rows.append((name, meta['property'], '; '.join(f'{c}: {v["how"]}' for c, v in final.items()),
                     final[meta['property']]['first'] if meta['property'] in final else ''))
        print(rows[-1], flush=True)
finally:
    shutil.rmtree('/verif/evidence', ignore_errors=True)
    shutil.move('/tmp/evidence_backup', '/verif/evidence')
print('\n| seeded change | property | result per check | first report of the property\'s own check |\n|---|---|---|---|')
for r in rows:
    print(f'| {r[0]} | {r[1]} | {r[2]} | {r[3].replace("|", "/")} |')
