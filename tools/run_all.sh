#!/bin/bash
# tools/run_all.sh [quick|thorough]: every registered check in sequence, one summary line each
cd /verif || exit 2
tier=${1:-quick}
for i in $(seq -w 1 20); do
  id=C$i
  start=$(date +%s)
  out=$(./check $id $tier 2>&1); rc=$?
  echo "$id rc=$rc $(( $(date +%s) - start ))s $(echo "$out" | grep -c '^VIOLATION') violations | $(echo "$out" | tail -1 | cut -c1-150)"
done
