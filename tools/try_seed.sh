#!/bin/bash
# tools/try_seed.sh <patch.diff> <check id> [<check id> ...]
# Applies a seeded change to /repo, runs the given checks (quick), and undoes the change straight afterwards.
patch="$1"; shift
cd /verif || exit 2
if ! git -C /repo diff --quiet; then echo "/repo has uncommitted changes"; exit 2; fi
git -C /repo apply "$patch" || { echo "patch does not apply"; exit 2; }
rm -rf /tmp/evidence_backup && cp -r /verif/evidence /tmp/evidence_backup
trap 'git -C /repo checkout -- .; rm -rf /verif/evidence && mv /tmp/evidence_backup /verif/evidence' EXIT
for id in "$@"; do
  out=$(./check "$id" quick 2>&1); rc=$?
  echo "== $id rc=$rc"; echo "$out" | grep -E "VIOLATION|KNOWN-FINDING|failed obligation|^  [a-z]|quick:" | cut -c1-300 | head -8
done
