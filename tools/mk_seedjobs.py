#!/venv/bin/python
"""tools/mk_seedjobs.py <wave> [ids...]: writes /tmp/seedjob<wave>_Cxx.txt, the ONLY thing a seeding sub-agent is
given: the text of one property (from properties.jsonl), the names of the changes earlier adversaries already made for
it (from /verif/seeded, names only) and the task description. The agent works in the scratch worktree /tmp/seed_Cxx
(created here if missing, reset otherwise) and never sees /verif."""
import glob
import json
import os
import subprocess
import sys

wave = sys.argv[1]
only = sys.argv[2:]
props = [json.loads(l) for l in open('/verif/properties.jsonl')]
TASK = '''You are a software engineer asked to play the adversary for a verification project. You are given a scratch git worktree of the Python project BauplanLabs/eudoxia (a tick-based discrete simulator for evaluating DAG pipeline scheduling policies over simulated resource pools, containers, OOM kills and suspension) at {wt}. Work ONLY inside that directory (never touch /repo or /verif, and do not read anything under /verif). Python: `/venv/bin/python`; always run with `PYTHONPATH={wt}` from inside the worktree so that the worktree's package is the one imported, e.g. `cd {wt} && PYTHONPATH={wt} /venv/bin/python -m pytest -q -p no:cacheprovider -x` (51 tests, ~20 s, all pass on the unchanged tree). Start from README.md and the source under eudoxia/.

Here is a semantic property that the code is supposed to satisfy:

{pid}: {title}

Statement: {statement}

Quantified over: {quant}

Why the existing tests cannot settle it: {why}

Relevant files: {files}


IMPORTANT — diversity: earlier adversaries already produced the following change(s) for this property; yours must be a DIFFERENT kind of change, preferably in a different function or file and breaking a DIFFERENT clause of the property (the property has several clauses; pick one that the earlier changes leave intact):
{earlier}
If every clause already has a seed, look for a different MECHANISM (a different code path, data structure, numeric boundary, ordering, caching or aliasing effect, interaction between two modules, parameter parsing/defaults, or the glue in eudoxia/simulator.py, eudoxia/__main__.py, eudoxia/utils/) that breaks one of them under different circumstances than the earlier seeds.
Also prefer changes that keep the obviously visible behaviour (shapes of outputs, counts in the common case) intact, so that only a check looking at the precise clause notices.


Your task: make a CHANGE to the source code under {wt}/eudoxia (not to the tests) that BREAKS this property, while the code still imports, and the whole existing test suite still passes. The change should look like a plausible regression or a well-meant refactoring/optimisation gone wrong — not sabotage that ordinary use would expose at once. Strongly prefer a change that needs something specific to manifest: a particular interleaving, a fault at a particular point, a multi-step sequence of operations, an unusual input or parameter combination, a boundary value, or two cooperating sites that each look fine alone. Keep it small (a few lines).

Deliverables, all inside {wt}:
1. the change itself applied in the working tree, and `git diff > {wt}/seed.patch` (must contain only source changes under eudoxia/; do not commit);
2. `{wt}/demo.py`: a small self-contained demonstration program (uses the public classes/functions of the package; no pytest needed) that exits 0 and prints PASS when the property holds for its scenario and exits 1 printing FAIL with an explanation when it does not. It must print PASS on the unchanged code and FAIL with your change. Verify both: `git apply -R seed.patch` to test the unchanged behaviour, then `git apply seed.patch` again (never use `git stash`: the stash is shared between worktrees). Leave the change APPLIED at the end.
3. confirm the test suite passes with the change applied (run it, report the last line).
4. `{wt}/notes.md`: 5-10 lines: what you changed, why it breaks the property, what it needs in order to manifest, and why the existing tests do not notice.

Final answer: a short name for the change (lower-case words joined by hyphens), the diff, the demo's output with and without the change, the pytest summary line, and the notes. Make it as SUBTLE as you can: it should need a rare combination (three or more conditions at once), survive a reviewer's casual reading, and leave aggregate statistics of ordinary runs unchanged. Before settling, run a few ordinary simulations (e.g. the parameter files under tests/regression) with and without your change and make sure their printed statistics are identical. Spend at most about 40 minutes.
'''
for p in props:
    pid = p['id']
    if only and pid not in only:
        continue
    wt = f'/tmp/seed_{pid}'
    if not os.path.isdir(wt):
        subprocess.run(f'git -C /repo worktree add --detach {wt} HEAD', shell=True, check=True, stdout=subprocess.DEVNULL)
    else:
        subprocess.run(f'git -C {wt} checkout -q -- . && git -C {wt} clean -fdq', shell=True, check=True)
    earlier = []
    for d in sorted(glob.glob(f'/verif/seeded/{pid}-*')):
        files = sorted({l[6:].strip() for l in open(d + '/patch.diff') if l.startswith('+++ b/')})
        earlier.append(f'  - {os.path.basename(d)} (in {", ".join(files)})')
    text = TASK.format(wt=wt, pid=pid, title=p['title'], statement=p['statement'], quant=p['quantifier']['text'],
                       why=p['why_tests_cant'], files=', '.join(p['anchors']['files']), earlier='\n'.join(earlier))
    open(f'/tmp/seedjob{wave}_{pid}.txt', 'w').write(text)
    print(pid, len(earlier), 'earlier seeds')
